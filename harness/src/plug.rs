//! Drives the four real dataflow plugin handlers (generate / publish / validate / parse) exactly
//! as tests/end2end.rs does, on a per-thread current-thread tokio runtime.

use dataflow_rs::engine::{AsyncFunctionHandler, FunctionConfig, message::Message};
use datalogic_rs::DataLogic;
use serde_json::{Value, json};
use std::sync::Arc;
use swift_mt_message::plugin::{generate::Generate, parse::Parse, publish::Publish, validate::Validate};

thread_local! {
    static RT: tokio::runtime::Runtime = tokio::runtime::Builder::new_current_thread().build().unwrap();
    static DL: Arc<DataLogic> = Arc::new(DataLogic::new());
}

#[derive(Clone, Copy, Debug, PartialEq, Eq)]
pub enum Plugin {
    Generate,
    Publish,
    Validate,
    Parse,
}

pub struct PlugOut {
    pub data: Value,
    pub metadata: Value,
}

/// Run one handler on a message whose data is `data`; returns data+metadata afterwards
pub fn run(kind: Plugin, data: Value, input: Value) -> std::result::Result<PlugOut, String> {
    let mut m = Message::from_value(&json!({}));
    *m.data_mut() = data;
    m.invalidate_context_cache();
    let cfg = FunctionConfig::Custom {
        name: format!("{:?}", kind).to_lowercase(),
        input,
    };
    let dl = DL.with(|d| d.clone());
    let res = RT.with(|rt| {
        rt.block_on(async {
            match kind {
                Plugin::Generate => Generate.execute(&mut m, &cfg, dl).await,
                Plugin::Publish => Publish.execute(&mut m, &cfg, dl).await,
                Plugin::Validate => Validate.execute(&mut m, &cfg, dl).await,
                Plugin::Parse => Parse.execute(&mut m, &cfg, dl).await,
            }
        })
    });
    match res {
        Ok(_) => Ok(PlugOut {
            data: m.data().clone(),
            metadata: m.metadata().clone(),
        }),
        Err(e) => Err(format!("{e:?}")),
    }
}

/// parse plugin on MT text: Ok((json, method))
pub fn parse_mt(text: &str) -> std::result::Result<(Value, String), String> {
    let out = run(
        Plugin::Parse,
        json!({"mt": text}),
        json!({"source": "mt", "target": "parsed"}),
    )?;
    let method = out.metadata["parsed"]["method"].as_str().unwrap_or("").to_string();
    Ok((out.data["parsed"].clone(), method))
}

/// validate plugin on MT text: Ok({valid, errors, ...})
pub fn validate_mt(text: &str) -> std::result::Result<Value, String> {
    let out = run(
        Plugin::Validate,
        json!({"mt": text}),
        json!({"source": "mt", "target": "v"}),
    )?;
    Ok(out.data["v"].clone())
}

/// publish plugin on message JSON (must carry message_type at root): Ok(mt text)
pub fn publish_json(j: &Value) -> std::result::Result<String, String> {
    let out = run(
        Plugin::Publish,
        json!({"j": j}),
        json!({"source": "j", "target": "mt"}),
    )?;
    out.data["mt"].as_str().map(|s| s.to_string()).ok_or_else(|| "no mt output".to_string())
}

/// generate plugin: the scenario (datafake schema) is the message payload, as in tests/end2end.rs
pub fn generate(schema: &Value) -> std::result::Result<Value, String> {
    let mut m = Message::from_value(schema);
    let cfg = FunctionConfig::Custom {
        name: "generate_mt".into(),
        input: json!({"target": "sample_json"}),
    };
    let dl = DL.with(|d| d.clone());
    let res = RT.with(|rt| rt.block_on(async { Generate.execute(&mut m, &cfg, dl).await }));
    match res {
        Ok(_) => Ok(m.data()["sample_json"].clone()),
        Err(e) => Err(format!("{e:?}")),
    }
}

/// publish -> validate -> parse on one message context, exactly the end2end workflow after generation
pub struct Pipeline {
    pub mt_text: std::result::Result<String, String>,
    pub validation: std::result::Result<Value, String>,
    pub parsed: std::result::Result<Value, String>,
}

pub fn pipeline(sample_json: &Value) -> Pipeline {
    let mut m = Message::from_value(&json!({}));
    *m.data_mut() = json!({"sample_json": sample_json});
    m.invalidate_context_cache();
    let dl = DL.with(|d| d.clone());
    let mk = |name: &str, input: Value| FunctionConfig::Custom { name: name.into(), input };
    let c_pub = mk("publish_mt", json!({"source": "sample_json", "target": "sample_mt"}));
    let c_val = mk("validate_mt", json!({"source": "sample_mt", "target": "validation_result"}));
    let c_par = mk("parse_mt", json!({"source": "sample_mt", "target": "mt_json"}));
    RT.with(|rt| {
        rt.block_on(async {
            let p = Publish.execute(&mut m, &c_pub, dl.clone()).await;
            let mt_text = match p {
                Ok(_) => m.data()["sample_mt"].as_str().map(|s| s.to_string()).ok_or_else(|| "publish wrote no string".to_string()),
                Err(e) => Err(format!("{e:?}")),
            };
            if mt_text.is_err() {
                return Pipeline { mt_text, validation: Err("not run".into()), parsed: Err("not run".into()) };
            }
            let v = Validate.execute(&mut m, &c_val, dl.clone()).await;
            let validation = match v {
                Ok(_) => Ok(m.data()["validation_result"].clone()),
                Err(e) => Err(format!("{e:?}")),
            };
            let pr = Parse.execute(&mut m, &c_par, dl.clone()).await;
            let parsed = match pr {
                Ok(_) => Ok(m.data()["mt_json"].clone()),
                Err(e) => Err(format!("{e:?}")),
            };
            Pipeline { mt_text, validation, parsed }
        })
    })
}
