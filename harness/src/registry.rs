//! Tables of the 30 message types and 114 field types as dynamic operations, so that every
//! monitor drives the real library through its public API.

use serde_json::Value;
use swift_mt_message::errors::{ParseError, SwiftValidationError};
use swift_mt_message::fields::*;
use swift_mt_message::messages::*;
use swift_mt_message::{SwiftField, SwiftMessage, SwiftMessageBody, SwiftParser, ValidationResult};

pub trait FieldVal: Send {
    fn to_swift(&self) -> String;
    fn json(&self) -> std::result::Result<Value, String>;
    fn dbg(&self) -> String;
    fn variant_tag(&self) -> Option<&'static str>;
}

impl<T: SwiftField + Send> FieldVal for T {
    fn to_swift(&self) -> String {
        self.to_swift_string()
    }
    fn json(&self) -> std::result::Result<Value, String> {
        serde_json::to_value(self).map_err(|e| e.to_string())
    }
    fn dbg(&self) -> String {
        format!("{:?}", self)
    }
    fn variant_tag(&self) -> Option<&'static str> {
        self.get_variant_tag()
    }
}

pub type FieldRes = std::result::Result<Box<dyn FieldVal>, ParseError>;

pub struct FieldOps {
    pub name: &'static str,
    pub parse: fn(&str) -> FieldRes,
    pub parse_variant: fn(&str, Option<&str>, Option<&str>) -> FieldRes,
    pub from_json: fn(&Value) -> std::result::Result<Box<dyn FieldVal>, String>,
}

fn f_parse<T: SwiftField + Send + 'static>(s: &str) -> FieldRes {
    T::parse(s).map(|v| Box::new(v) as Box<dyn FieldVal>)
}
fn f_parse_variant<T: SwiftField + Send + 'static>(s: &str, v: Option<&str>, t: Option<&str>) -> FieldRes {
    T::parse_with_variant(s, v, t).map(|v| Box::new(v) as Box<dyn FieldVal>)
}
fn f_from_json<T: SwiftField + Send + 'static>(v: &Value) -> std::result::Result<Box<dyn FieldVal>, String> {
    serde_json::from_value::<T>(v.clone())
        .map(|v| Box::new(v) as Box<dyn FieldVal>)
        .map_err(|e| e.to_string())
}

macro_rules! fields {
    ($($t:ident),* $(,)?) => {
        pub static FIELDS: &[FieldOps] = &[
            $(FieldOps { name: stringify!($t), parse: f_parse::<$t>, parse_variant: f_parse_variant::<$t>, from_json: f_from_json::<$t> }),*
        ];
    };
}

fields!(
    Field11, Field11R, Field11S, Field12, Field13C, Field13D, Field19, Field20, Field21C, Field21D,
    Field21E, Field21F, Field21NoOption, Field21R, Field23, Field23B, Field23E, Field25A,
    Field25AccountIdentification, Field25NoOption, Field25P, Field26T, Field28, Field28C, Field28D,
    Field30, Field32, Field32A, Field32AB, Field32AmountCD, Field32B, Field32C, Field32D, Field33B,
    Field34F, Field36, Field37H, Field50A, Field50C, Field50Creditor, Field50F, Field50G, Field50H,
    Field50InstructingParty, Field50K, Field50L, Field50NoOption, Field50OrderingCustomerAFK,
    Field50OrderingCustomerFGH, Field50OrderingCustomerNCF, Field51A, Field52A,
    Field52AccountServicingInstitution, Field52B, Field52C, Field52CreditorBank, Field52D,
    Field52DrawerBank, Field52OrderingInstitution, Field53A, Field53B, Field53D,
    Field53SenderCorrespondent, Field54A, Field54B, Field54D, Field54ReceiverCorrespondent,
    Field55A, Field55B, Field55D, Field55ThirdReimbursementInstitution, Field56A, Field56C,
    Field56D, Field56Intermediary, Field56IntermediaryAD, Field57, Field57A, Field57B, Field57C,
    Field57D, Field57DebtInstitution, Field58, Field58A, Field58D, Field59, Field59A, Field59Debtor,
    Field59F, Field59NoOption, Field60, Field60F, Field60M, Field61, Field62, Field62F, Field62M,
    Field64, Field65, Field70, Field71A, Field71B, Field71F, Field71G, Field72, Field75, Field76,
    Field77A, Field77B, Field77T, Field79, Field86, Field90C, Field90D,
);

/// The 25 multi-option (enum) field families; their values must be re-parsed through
/// `parse_with_variant` with the option letter of the emitted tag (the library's
/// `get_variant_tag` is not implemented for them, so the list is kept here).
pub static ENUM_TYPES: &[&str] = &[
    "Field25AccountIdentification", "Field32", "Field32AB", "Field32AmountCD", "Field50InstructingParty",
    "Field50OrderingCustomerFGH", "Field50OrderingCustomerAFK", "Field50OrderingCustomerNCF", "Field50Creditor",
    "Field52AccountServicingInstitution", "Field52OrderingInstitution", "Field52CreditorBank", "Field52DrawerBank",
    "Field53SenderCorrespondent", "Field54ReceiverCorrespondent", "Field55ThirdReimbursementInstitution",
    "Field56Intermediary", "Field56IntermediaryAD", "Field57", "Field57DebtInstitution", "Field58", "Field59",
    "Field59Debtor", "Field60", "Field62",
];

pub fn is_enum_type(name: &str) -> bool {
    ENUM_TYPES.contains(&name)
}

pub fn field(name: &str) -> Option<&'static FieldOps> {
    FIELDS.iter().find(|f| f.name == name)
}

// ---------------------------------------------------------------------------------------------

pub trait Body: Send {
    fn to_mt(&self) -> String;
    fn validate(&self, stop: bool) -> Vec<SwiftValidationError>;
    fn json(&self) -> std::result::Result<Value, String>;
    fn dbg(&self) -> String;
}
impl<T: SwiftMessageBody> Body for T {
    fn to_mt(&self) -> String {
        self.to_mt_string()
    }
    fn validate(&self, stop: bool) -> Vec<SwiftValidationError> {
        self.validate_network_rules(stop)
    }
    fn json(&self) -> std::result::Result<Value, String> {
        serde_json::to_value(self).map_err(|e| e.to_string())
    }
    fn dbg(&self) -> String {
        format!("{:?}", self)
    }
}

pub trait Full: Send {
    fn to_mt_message(&self) -> String;
    fn json(&self) -> std::result::Result<Value, String>;
    fn dbg(&self) -> String;
    fn body(&self) -> &dyn Body;
    fn validate(&self) -> ValidationResult;
    fn has_reject_codes(&self) -> bool;
    fn has_return_codes(&self) -> bool;
    fn is_cover_message(&self) -> bool;
    fn is_stp_message(&self) -> bool;
    fn message_type(&self) -> String;
}
impl<T: SwiftMessageBody> Full for SwiftMessage<T> {
    fn to_mt_message(&self) -> String {
        SwiftMessage::to_mt_message(self)
    }
    fn json(&self) -> std::result::Result<Value, String> {
        serde_json::to_value(self).map_err(|e| e.to_string())
    }
    fn dbg(&self) -> String {
        format!("{:?}", self)
    }
    fn body(&self) -> &dyn Body {
        &self.fields
    }
    fn validate(&self) -> ValidationResult {
        SwiftMessage::validate(self)
    }
    fn has_reject_codes(&self) -> bool {
        SwiftMessage::has_reject_codes(self)
    }
    fn has_return_codes(&self) -> bool {
        SwiftMessage::has_return_codes(self)
    }
    fn is_cover_message(&self) -> bool {
        SwiftMessage::is_cover_message(self)
    }
    fn is_stp_message(&self) -> bool {
        SwiftMessage::is_stp_message(self)
    }
    fn message_type(&self) -> String {
        self.message_type.clone()
    }
}

pub type BodyRes = std::result::Result<Box<dyn Body>, ParseError>;
pub type FullRes = std::result::Result<Box<dyn Full>, ParseError>;

pub struct MsgOps {
    pub code: &'static str,
    pub type_code: fn() -> &'static str,
    pub parse_b4: fn(&str) -> BodyRes,
    pub parse_full: fn(&str) -> FullRes,
    pub parse_full_with_errors: fn(&str) -> FullRes,
    pub body_from_json: fn(&Value) -> std::result::Result<Box<dyn Body>, String>,
    pub full_from_json: fn(&Value) -> std::result::Result<Box<dyn Full>, String>,
    pub full_from_str: fn(&str) -> std::result::Result<Box<dyn Full>, String>,
    pub generate: fn(&str, &str) -> FullRes,
}

fn m_parse_b4<T: SwiftMessageBody + 'static>(s: &str) -> BodyRes {
    T::parse_from_block4(s).map(|v| Box::new(v) as Box<dyn Body>)
}
fn m_parse_full<T: SwiftMessageBody + 'static>(s: &str) -> FullRes {
    SwiftParser::parse::<T>(s).map(|v| Box::new(v) as Box<dyn Full>)
}
fn m_parse_full_we<T: SwiftMessageBody + 'static>(s: &str) -> FullRes {
    use swift_mt_message::errors::ParseResult;
    match SwiftParser::new().parse_with_errors::<T>(s)? {
        ParseResult::Success(v) => Ok(Box::new(v) as Box<dyn Full>),
        ParseResult::PartialSuccess(v, _) => Ok(Box::new(v) as Box<dyn Full>),
        ParseResult::Failure(e) => Err(ParseError::InvalidFormat {
            message: format!("parse_with_errors failure: {} errors", e.len()),
        }),
    }
}
fn m_body_from_json<T: SwiftMessageBody + serde::de::DeserializeOwned + 'static>(
    v: &Value,
) -> std::result::Result<Box<dyn Body>, String> {
    serde_json::from_value::<T>(v.clone())
        .map(|v| Box::new(v) as Box<dyn Body>)
        .map_err(|e| e.to_string())
}
fn m_full_from_json<T: SwiftMessageBody + serde::de::DeserializeOwned + 'static>(
    v: &Value,
) -> std::result::Result<Box<dyn Full>, String> {
    serde_json::from_value::<SwiftMessage<T>>(v.clone())
        .map(|v| Box::new(v) as Box<dyn Full>)
        .map_err(|e| e.to_string())
}
fn m_full_from_str<T: SwiftMessageBody + serde::de::DeserializeOwned + 'static>(
    s: &str,
) -> std::result::Result<Box<dyn Full>, String> {
    serde_json::from_str::<SwiftMessage<T>>(s)
        .map(|v| Box::new(v) as Box<dyn Full>)
        .map_err(|e| e.to_string())
}
fn m_generate<T: SwiftMessageBody + serde::de::DeserializeOwned + 'static>(mt: &str, scenario: &str) -> FullRes {
    swift_mt_message::generate_sample::<T>(mt, Some(scenario)).map(|v| Box::new(v) as Box<dyn Full>)
}

macro_rules! messages {
    ($($t:ident => $c:literal),* $(,)?) => {
        pub static MESSAGES: &[MsgOps] = &[
            $(MsgOps {
                code: $c,
                type_code: <$t as SwiftMessageBody>::message_type,
                parse_b4: m_parse_b4::<$t>,
                parse_full: m_parse_full::<$t>,
                parse_full_with_errors: m_parse_full_we::<$t>,
                body_from_json: m_body_from_json::<$t>,
                full_from_json: m_full_from_json::<$t>,
                full_from_str: m_full_from_str::<$t>,
                generate: m_generate::<$t>,
            }),*
        ];
    };
}

messages!(
    MT101 => "101", MT103 => "103", MT104 => "104", MT107 => "107", MT110 => "110", MT111 => "111",
    MT112 => "112", MT190 => "190", MT191 => "191", MT192 => "192", MT196 => "196", MT199 => "199",
    MT200 => "200", MT202 => "202", MT204 => "204", MT205 => "205", MT210 => "210", MT290 => "290",
    MT291 => "291", MT292 => "292", MT296 => "296", MT299 => "299", MT900 => "900", MT910 => "910",
    MT920 => "920", MT935 => "935", MT940 => "940", MT941 => "941", MT942 => "942", MT950 => "950",
);

pub fn msg(code: &str) -> Option<&'static MsgOps> {
    MESSAGES.iter().find(|m| m.code == code)
}

/// The thirty `as_mtNNN` / `into_mtNNN` accessors of the auto-detected message: (code, as is Some, into is Some)
pub fn accessors(p: &swift_mt_message::ParsedSwiftMessage) -> Vec<(&'static str, bool, bool)> {
    vec![
        ("101", p.as_mt101().is_some(), p.clone().into_mt101().is_some()),
        ("103", p.as_mt103().is_some(), p.clone().into_mt103().is_some()),
        ("104", p.as_mt104().is_some(), p.clone().into_mt104().is_some()),
        ("107", p.as_mt107().is_some(), p.clone().into_mt107().is_some()),
        ("110", p.as_mt110().is_some(), p.clone().into_mt110().is_some()),
        ("111", p.as_mt111().is_some(), p.clone().into_mt111().is_some()),
        ("112", p.as_mt112().is_some(), p.clone().into_mt112().is_some()),
        ("190", p.as_mt190().is_some(), p.clone().into_mt190().is_some()),
        ("191", p.as_mt191().is_some(), p.clone().into_mt191().is_some()),
        ("192", p.as_mt192().is_some(), p.clone().into_mt192().is_some()),
        ("196", p.as_mt196().is_some(), p.clone().into_mt196().is_some()),
        ("199", p.as_mt199().is_some(), p.clone().into_mt199().is_some()),
        ("200", p.as_mt200().is_some(), p.clone().into_mt200().is_some()),
        ("202", p.as_mt202().is_some(), p.clone().into_mt202().is_some()),
        ("204", p.as_mt204().is_some(), p.clone().into_mt204().is_some()),
        ("205", p.as_mt205().is_some(), p.clone().into_mt205().is_some()),
        ("210", p.as_mt210().is_some(), p.clone().into_mt210().is_some()),
        ("290", p.as_mt290().is_some(), p.clone().into_mt290().is_some()),
        ("291", p.as_mt291().is_some(), p.clone().into_mt291().is_some()),
        ("292", p.as_mt292().is_some(), p.clone().into_mt292().is_some()),
        ("296", p.as_mt296().is_some(), p.clone().into_mt296().is_some()),
        ("299", p.as_mt299().is_some(), p.clone().into_mt299().is_some()),
        ("900", p.as_mt900().is_some(), p.clone().into_mt900().is_some()),
        ("910", p.as_mt910().is_some(), p.clone().into_mt910().is_some()),
        ("920", p.as_mt920().is_some(), p.clone().into_mt920().is_some()),
        ("935", p.as_mt935().is_some(), p.clone().into_mt935().is_some()),
        ("940", p.as_mt940().is_some(), p.clone().into_mt940().is_some()),
        ("941", p.as_mt941().is_some(), p.clone().into_mt941().is_some()),
        ("942", p.as_mt942().is_some(), p.clone().into_mt942().is_some()),
        ("950", p.as_mt950().is_some(), p.clone().into_mt950().is_some()),
    ]
}

/// `MTnnn::parse(input)` — the inherent convenience entry point 18 of the message types offer (full message
/// text or bare text block): Some(body JSON or error text) for those types, None for the others
pub fn inherent_parse(code: &str, input: &str) -> Option<std::result::Result<Value, String>> {
    use swift_mt_message::messages::*;
    fn j<T: serde::Serialize>(r: std::result::Result<T, ParseError>) -> std::result::Result<Value, String> {
        r.map_err(|e| e.to_string()).and_then(|v| serde_json::to_value(v).map_err(|e| e.to_string()))
    }
    Some(match code {
        "101" => j(MT101::parse(input)),
        "103" => j(MT103::parse(input)),
        "104" => j(MT104::parse(input)),
        "107" => j(MT107::parse(input)),
        "110" => j(MT110::parse(input)),
        "111" => j(MT111::parse(input)),
        "112" => j(MT112::parse(input)),
        "190" => j(MT190::parse(input)),
        "191" => j(MT191::parse(input)),
        "192" => j(MT192::parse(input)),
        "196" => j(MT196::parse(input)),
        "199" => j(MT199::parse(input)),
        "200" => j(MT200::parse(input)),
        "290" => j(MT290::parse(input)),
        "291" => j(MT291::parse(input)),
        "900" => j(MT900::parse(input)),
        "910" => j(MT910::parse(input)),
        "920" => j(MT920::parse(input)),
        _ => return None,
    })
}
