//! JSON surgery: realise rule-relevant variations of a message by editing its serde_json value
//! (delete keys, overwrite leaves, resize arrays) and reading it back through `from_value`.
//! No knowledge of the JSON schema is needed: keys are the field tags.

use crate::rng::Rng;
use serde_json::Value;
use std::collections::BTreeMap;

pub type Path = Vec<String>;

pub fn get<'a>(v: &'a Value, path: &[String]) -> Option<&'a Value> {
    let mut c = v;
    for p in path {
        c = match c {
            Value::Object(m) => m.get(p)?,
            Value::Array(a) => a.get(p.parse::<usize>().ok()?)?,
            _ => return None,
        };
    }
    Some(c)
}

pub fn get_mut<'a>(v: &'a mut Value, path: &[String]) -> Option<&'a mut Value> {
    let mut c = v;
    for p in path {
        c = match c {
            Value::Object(m) => m.get_mut(p)?,
            Value::Array(a) => a.get_mut(p.parse::<usize>().ok()?)?,
            _ => return None,
        };
    }
    Some(c)
}

pub fn set(v: &mut Value, path: &[String], nv: Value) -> bool {
    match get_mut(v, path) {
        Some(slot) => {
            *slot = nv;
            true
        }
        None => false,
    }
}

pub fn remove(v: &mut Value, path: &[String]) -> bool {
    if path.is_empty() {
        return false;
    }
    let (last, parent) = path.split_last().unwrap();
    match get_mut(v, parent) {
        Some(Value::Object(m)) => m.remove(last).is_some(),
        Some(Value::Array(a)) => match last.parse::<usize>() {
            Ok(i) if i < a.len() => {
                a.remove(i);
                true
            }
            _ => false,
        },
        _ => false,
    }
}

/// All paths: (path, is_leaf)
pub fn paths(v: &Value) -> Vec<(Path, bool)> {
    fn rec(v: &Value, cur: &mut Path, out: &mut Vec<(Path, bool)>) {
        match v {
            Value::Object(m) => {
                if !cur.is_empty() {
                    out.push((cur.clone(), false));
                }
                for (k, x) in m {
                    cur.push(k.clone());
                    rec(x, cur, out);
                    cur.pop();
                }
            }
            Value::Array(a) => {
                out.push((cur.clone(), false));
                for (i, x) in a.iter().enumerate() {
                    cur.push(i.to_string());
                    rec(x, cur, out);
                    cur.pop();
                }
            }
            Value::Null => {}
            _ => out.push((cur.clone(), true)),
        }
    }
    let mut out = Vec::new();
    rec(v, &mut Vec::new(), &mut out);
    out
}

pub fn pattern(path: &[String]) -> String {
    path.iter()
        .map(|p| if p.chars().all(|c| c.is_ascii_digit()) { "#" } else { p.as_str() })
        .collect::<Vec<_>>()
        .join("/")
}

/// leaf values seen per (message type, path pattern) over a set of documents
#[derive(Default)]
pub struct LeafPool {
    pub by_pattern: BTreeMap<String, Vec<Value>>,
    pub by_key: BTreeMap<String, Vec<Value>>,
}

impl LeafPool {
    pub fn add(&mut self, doc: &Value) {
        for (p, leaf) in paths(doc) {
            if !leaf {
                continue;
            }
            let Some(v) = get(doc, &p) else { continue };
            let pat = pattern(&p);
            let e = self.by_pattern.entry(pat).or_default();
            if e.len() < 24 && !e.contains(v) {
                e.push(v.clone());
            }
            if let Some(k) = p.last() {
                let e = self.by_key.entry(k.clone()).or_default();
                if e.len() < 40 && !e.contains(v) {
                    e.push(v.clone());
                }
            }
        }
    }
}

const CODE_WORDS: &[&str] = &[
    "SDVA", "INTC", "REPA", "CORT", "HOLD", "CHQB", "PHOB", "TELB", "PHON", "TELE", "PHOI", "TELI", "SPRI", "SSTD",
    "SPAY", "CRED", "CRTS", "SPRI", "OTHR", "RTND", "AUTH", "NAUT", "RFDD", "EQUI", "CMZB", "CMTO", "URGP", "NETS",
    "XXXX", "BEN", "OUR", "SHA", "940", "941", "942", "950", "999", "C", "D", "N", "/REJT/", "/RETN/",
];
const CURRENCIES: &[&str] = &["USD", "EUR", "GBP", "JPY", "BHD", "CHF", "XAU", "CLF"];

/// One random edit; returns a label describing its kind (for strata) or None if nothing applied
pub fn random_edit(doc: &mut Value, root: &[String], pool: &LeafPool, r: &mut Rng) -> Option<&'static str> {
    let sub = get(doc, root)?.clone();
    let ps = paths(&sub);
    if ps.is_empty() {
        return None;
    }
    let (rel, leaf) = r.pick(&ps).clone();
    let mut full: Path = root.to_vec();
    full.extend(rel.iter().cloned());
    let choice = r.below(10);
    if !leaf {
        match get(doc, &full) {
            Some(Value::Array(a)) if !a.is_empty() => {
                let a = a.clone();
                let n = a.len();
                let slot = get_mut(doc, &full)?.as_array_mut()?;
                match choice % 4 {
                    0 => {
                        slot.push(a[r.below(n)].clone());
                        Some("array-duplicate")
                    }
                    1 => {
                        slot.remove(r.below(n));
                        Some("array-remove")
                    }
                    2 => {
                        while slot.len() < 11 {
                            let x = a[slot.len() % n].clone();
                            slot.push(x);
                        }
                        Some("array-to-11")
                    }
                    _ => {
                        slot.reverse();
                        Some("array-reverse")
                    }
                }
            }
            _ => {
                if remove(doc, &full) {
                    Some("remove-object")
                } else {
                    None
                }
            }
        }
    } else {
        let key = full.last().cloned().unwrap_or_default();
        let cur = get(doc, &full)?.clone();
        match (&cur, choice) {
            (_, 0) => {
                remove(doc, &full);
                Some("remove-leaf")
            }
            (Value::Number(_), 1..=3) => {
                set(doc, &full, serde_json::json!(0.0));
                Some("number-zero")
            }
            (Value::Number(n), _) => {
                let x = n.as_f64().unwrap_or(1.0);
                set(doc, &full, serde_json::json!(x + 1.25));
                Some("number-changed")
            }
            (Value::String(s), 1..=4) => {
                // a value seen at the same place or under the same key elsewhere
                let pat = pattern(&full);
                let cands = pool.by_pattern.get(&pat).or_else(|| pool.by_key.get(&key));
                match cands {
                    Some(c) if !c.is_empty() => {
                        let nv = r.pick(c).clone();
                        set(doc, &full, nv);
                        Some("leaf-from-pool")
                    }
                    _ => {
                        set(doc, &full, Value::String(format!("{s}X")));
                        Some("string-suffixed")
                    }
                }
            }
            (Value::String(s), 5..=7) => {
                let nv = if s.len() == 3 && s.chars().all(|c| c.is_ascii_uppercase()) {
                    r.pick(CURRENCIES).to_string()
                } else {
                    r.pick(CODE_WORDS).to_string()
                };
                set(doc, &full, Value::String(nv));
                Some("code-or-currency")
            }
            (Value::String(s), _) => {
                let nv = format!("/{}/{}", r.pick(&["REJT", "RETN", "RTND", "COV"]), s);
                set(doc, &full, Value::String(nv));
                Some("codeword-prefixed")
            }
            _ => None,
        }
    }
}
