//! Base inputs: (a) the committed corpus of library-generated scenario messages
//! (/verif/corpus/corpus.jsonl, produced once by `smtverif gen-corpus` from the shipped scenarios),
//! (b) helper views on it (block-4 texts, field contents per tag).

use crate::registry::MESSAGES;
use crate::tok;
use serde::{Deserialize, Serialize};

#[derive(Clone, Debug, Serialize, Deserialize)]
pub struct Entry {
    pub mt: String,
    pub scenario: String,
    pub text: String,
}

pub fn scenario_files(repo_dir: &str) -> Vec<(String, String)> {
    let mut out = Vec::new();
    for m in MESSAGES {
        let dir = format!("{repo_dir}/test_scenarios/mt{}", m.code);
        let Ok(rd) = std::fs::read_dir(&dir) else {
            continue;
        };
        let mut names: Vec<String> = rd
            .filter_map(|e| e.ok())
            .map(|e| e.file_name().to_string_lossy().to_string())
            .filter(|n| n.ends_with(".json") && n != "index.json")
            .map(|n| n.trim_end_matches(".json").to_string())
            .collect();
        names.sort();
        for n in names {
            out.push((m.code.to_string(), n));
        }
    }
    out
}

pub fn generate(repo_dir: &str, per_scenario: usize, out_path: &str) -> std::io::Result<usize> {
    use std::io::Write;
    let mut f = std::fs::File::create(out_path)?;
    let mut n = 0;
    for (code, scen) in scenario_files(repo_dir) {
        let ops = crate::registry::msg(&code).unwrap();
        for _ in 0..per_scenario {
            match (ops.generate)(&format!("MT{code}"), &scen) {
                Ok(m) => {
                    let e = Entry {
                        mt: code.clone(),
                        scenario: scen.clone(),
                        text: m.to_mt_message(),
                    };
                    writeln!(f, "{}", serde_json::to_string(&e).unwrap())?;
                    n += 1;
                }
                Err(e) => eprintln!("generate MT{code}/{scen}: {e}"),
            }
        }
    }
    Ok(n)
}

pub struct Corpus {
    pub entries: Vec<Entry>,
}

impl Corpus {
    pub fn load(verif_dir: &str) -> Corpus {
        let path = format!("{verif_dir}/corpus/corpus.jsonl");
        let text = std::fs::read_to_string(&path).unwrap_or_else(|e| panic!("corpus {path}: {e}"));
        let entries = text
            .lines()
            .filter(|l| !l.trim().is_empty())
            .map(|l| serde_json::from_str::<Entry>(l).expect("corpus line"))
            .collect();
        Corpus { entries }
    }
    pub fn of_type(&self, mt: &str) -> Vec<&Entry> {
        self.entries.iter().filter(|e| e.mt == mt).collect()
    }
}

/// Block-4 content of a full message by the reference splitter (None if not splittable)
pub fn block4_of(full: &str) -> Option<String> {
    tok::split_blocks(full)?
        .into_iter()
        .find(|(id, _)| id == "4")
        .map(|(_, c)| c)
}

/// Distinct field contents per tag across the corpus: (tag, content)
pub fn field_contents(c: &Corpus) -> Vec<(String, String)> {
    let mut seen = std::collections::BTreeSet::new();
    for e in &c.entries {
        if let Some(b4) = block4_of(&e.text) {
            for t in tok::tokenize(&b4).fields {
                seen.insert((t.tag, t.content));
            }
        }
    }
    seen.into_iter().collect()
}
