//! Reference specifications (independent restatements of documentation, kept as data).

pub mod exemplar;
pub mod fieldfmt;
pub mod layout;

use crate::monitor::guard;
use crate::registry::{FieldOps, field};
use crate::tok;

/// Field type that parses a tag, by the library's naming convention only
pub fn field_type_for(tag: &str) -> Option<&'static FieldOps> {
    field(&format!("Field{tag}")).or_else(|| field(&format!("Field{tag}NoOption")))
}

#[derive(Debug)]
pub enum Canon {
    /// the library's own spelling of the exemplar (a fixed point of parse/serialise)
    Ok(String),
    Rejected(String),
    NotFixpoint,
    /// the library's spelling ends in a line break or holds an empty line although the content had none:
    /// written into a text block it would leave a blank line between two fields
    BlankLine(String),
    Panic,
}

/// Library's own canonical spelling of a documented-format content: body(ser(parse(c))), required
/// to be accepted again and to be a fixed point.
pub fn canonical(tag: &str, content: &str) -> Canon {
    let Some(ops) = field_type_for(tag) else { return Canon::Rejected(format!("no field type for tag {tag}")) };
    let v = match guard(|| (ops.parse)(content)) {
        Ok(Ok(v)) => v,
        Ok(Err(e)) => return Canon::Rejected(e.to_string()),
        Err(_) => return Canon::Panic,
    };
    let Ok(s) = guard(|| v.to_swift()) else { return Canon::Panic };
    let Some((t, body)) = tok::split_swift_string(&s) else { return Canon::NotFixpoint };
    if t != tag {
        return Canon::NotFixpoint;
    }
    let blank = |x: &str| {
        let n = tok::normalize_newlines(x);
        n.ends_with('\n') || n.starts_with('\n') || n.contains("\n\n")
    };
    if blank(&body) && !blank(content) {
        return Canon::BlankLine(body);
    }
    match guard(|| (ops.parse)(&body)) {
        Ok(Ok(v2)) => match guard(|| v2.to_swift()) {
            Ok(s2) if s2 == s => Canon::Ok(body),
            _ => Canon::NotFixpoint,
        },
        _ => Canon::NotFixpoint,
    }
}
