//! Documented field formats (DESIGN.md Appendix E) as data, with an interpreter for the SWIFT
//! format notation: a reference acceptor (three-valued) and a generator of class-labelled
//! candidates. Source of the table: the `Format:` doc comments of src/fields/field*.rs.
//!
//! Mini-notation: lines separated by `|`; a line may start with `?` (optional line) and `k*`
//! (1..k repetitions); components separated by blanks: `["lit"]<len><set>[:name]`, wrapped in
//! `[...]` when optional; `<len>` is `N` (up to N) or `N!` (exactly N); sets: n a c h x y z d e.

use crate::rng::Rng;

#[derive(Clone, Copy, Debug, PartialEq)]
pub enum Set {
    N,
    A,
    C,
    H,
    X,
    Z,
    D,
    E,
}

#[derive(Clone, Debug)]
pub struct Comp {
    pub name: String,
    pub lit: String,
    pub set: Set,
    pub min: usize,
    pub max: usize,
    pub optional: bool,
}

#[derive(Clone, Debug)]
pub struct Line {
    pub comps: Vec<Comp>,
    pub optional: bool,
    pub repeat: usize,
}

#[derive(Clone, Debug)]
pub struct Spec {
    pub ty: &'static str,
    pub lines: Vec<Line>,
}

pub const TABLE: &[(&str, &str)] = &[
    ("Field11", "3!n:mt 6!n:date"),
    ("Field11R", "3!n:mt 6!n:date [4!n:session] [6!n:isn]"),
    ("Field11S", "3!n:mt 6!n:date [4!n:session] [6!n:isn]"),
    ("Field12", "3!n:type"),
    ("Field13C", "\"/\"8c:code13c \"/\"4!n:time 1!x:sign 4!n:offset"),
    ("Field13D", "6!n:date 4!n:time 1!x:sign 4!n:offset"),
    ("Field19", "17d:amount"),
    ("Field20", "16x:ref"),
    ("Field21NoOption", "16x:ref"),
    ("Field21F", "16x:ref"),
    ("Field21R", "16x:ref"),
    ("Field21C", "35x:ref"),
    ("Field21D", "35x:ref"),
    ("Field21E", "35x:ref"),
    ("Field23", "3!a:func [2!n:days] 11x:text"),
    ("Field23B", "4!c:code23b"),
    ("Field23E", "4!c:code23e [\"/\"35x:info]"),
    ("Field25NoOption", "[\"/\"] 35x:account"),
    ("Field25A", "\"/\"34x:account"),
    ("Field25P", "35x:account | 11c:bic"),
    ("Field26T", "3!c:code"),
    ("Field28", "5n:number [\"/\"2n:seq]"),
    ("Field28C", "5n:number [\"/\"5n:seq]"),
    ("Field28D", "5n:index \"/\"5n:total"),
    ("Field30", "6!n:date"),
    ("Field32A", "6!n:date 3!a:ccy 15d:amount"),
    ("Field32C", "6!n:date 3!a:ccy 15d:amount"),
    ("Field32D", "6!n:date 3!a:ccy 15d:amount"),
    ("Field32B", "3!a:ccy 15d:amount"),
    ("Field33B", "3!a:ccy 15d:amount"),
    ("Field71F", "3!a:ccy 15d:amount"),
    ("Field71G", "3!a:ccy 15d:amount"),
    ("Field34F", "3!a:ccy [1!a:dcmark] 15d:amount"),
    ("Field36", "12d:rate"),
    ("Field37H", "1!a:dcmark [1!a:neg] 12d:rate"),
    ("Field50NoOption", "4*35x:line"),
    ("Field50A", "?\"/\"34x:account | 4*1!n:lineno \"/\"33x:text"),
    ("Field50C", "11c:bic"),
    ("Field50G", "\"/\"34x:account | 11c:bic"),
    ("Field50H", "\"/\"34x:account | 4*35x:line"),
    ("Field50K", "?\"/\"34x:account | 4*35x:line"),
    ("Field59NoOption", "?\"/\"34x:account | 4*35x:line"),
    ("Field50L", "35x:party"),
    ("Field51A", "?[\"/\"1!a:code] [\"/\"34x:account] | 11c:bic"),
    ("Field52A", "?[\"/\"1!a:code] [\"/\"34x:account] | 11c:bic"),
    ("Field53A", "?[\"/\"1!a:code] [\"/\"34x:account] | 11c:bic"),
    ("Field54A", "?[\"/\"1!a:code] [\"/\"34x:account] | 11c:bic"),
    ("Field55A", "?[\"/\"1!a:code] [\"/\"34x:account] | 11c:bic"),
    ("Field56A", "?[\"/\"1!a:code] [\"/\"34x:account] | 11c:bic"),
    ("Field57A", "?[\"/\"1!a:code] [\"/\"34x:account] | 11c:bic"),
    ("Field58A", "?[\"/\"1!a:code] [\"/\"34x:account] | 11c:bic"),
    ("Field59A", "?\"/\"34x:account | 11c:bic"),
    ("Field52C", "\"/\"34x:account"),
    ("Field56C", "\"/\"34x:account"),
    ("Field57C", "\"/\"34x:account"),
    ("Field52D", "?[\"/\"1!a:code] [\"/\"34x:account] | 4*35x:line"),
    ("Field53D", "?[\"/\"1!a:code] [\"/\"34x:account] | 4*35x:line"),
    ("Field52B", "?[\"/\"1!a:code] [\"/\"34x:account] | ?35x:location"),
    ("Field53B", "?[\"/\"1!a:code] [\"/\"34x:account] | ?35x:location"),
    ("Field54B", "?[\"/\"1!a:code] [\"/\"34x:account] | ?35x:location"),
    ("Field55B", "?[\"/\"1!a:code] [\"/\"34x:account] | ?35x:location"),
    ("Field57B", "?[\"/\"1!a:code] [\"/\"34x:account] | ?35x:location"),
    ("Field54D", "?[\"/\"1!a:code] [\"/\"34x:account] | 4*35x:line"),
    ("Field55D", "?[\"/\"1!a:code] [\"/\"34x:account] | 4*35x:line"),
    ("Field56D", "?[\"/\"1!a:code] [\"/\"34x:account] | 4*35x:line"),
    ("Field57D", "?[\"/\"1!a:code] [\"/\"34x:account] | 4*35x:line"),
    ("Field58D", "?[\"/\"1!a:code] [\"/\"34x:account] | 4*35x:line"),
    ("Field59F", "?\"/\"34x:account | 4*1!n:lineno \"/\"33x:text"),
    ("Field60F", "1!a:dcmark 6!n:date 3!a:ccy 15d:amount"),
    ("Field60M", "1!a:dcmark 6!n:date 3!a:ccy 15d:amount"),
    ("Field62F", "1!a:dcmark 6!n:date 3!a:ccy 15d:amount"),
    ("Field62M", "1!a:dcmark 6!n:date 3!a:ccy 15d:amount"),
    ("Field64", "1!a:dcmark 6!n:date 3!a:ccy 15d:amount"),
    ("Field65", "1!a:dcmark 6!n:date 3!a:ccy 15d:amount"),
    ("Field61", "6!n:date [4!n:entry] 2a:dcmark61 [1!a:funds] 15d:amount 1!a:ttype 3!c:tcode [16x:ref] [\"//\"16x:bankref] | ?34x:supp"),
    ("Field70", "4*35x:line"),
    ("Field71A", "3!a:code71a"),
    ("Field71B", "6*35x:line"),
    ("Field72", "6*35x:line"),
    ("Field75", "6*35x:line"),
    ("Field76", "6*35x:line"),
    ("Field77A", "20*35x:line"),
    ("Field77B", "3*35x:line"),
    ("Field77T", "9000z:envelope"),
    ("Field79", "35*50x:line"),
    ("Field86", "6*65x:line"),
    ("Field90C", "5n:number 3!a:ccy 15d:amount"),
    ("Field90D", "5n:number 3!a:ccy 15d:amount"),
];

fn parse_comp(tok: &str) -> Comp {
    let mut t = tok.trim();
    let mut optional = false;
    if t.starts_with('[') && t.ends_with(']') {
        optional = true;
        t = &t[1..t.len() - 1];
    }
    let mut lit = String::new();
    if t.starts_with('"') {
        let end = t[1..].find('"').unwrap() + 1;
        lit = t[1..end].to_string();
        t = &t[end + 1..];
    }
    if t.is_empty() {
        // a bare optional literal, e.g. ["/"]
        return Comp { name: format!("lit{}", lit), lit, set: Set::E, min: 0, max: 0, optional };
    }
    let (body, name) = match t.split_once(':') {
        Some((b, n)) => (b, n.to_string()),
        None => (t, String::new()),
    };
    let digits: String = body.chars().take_while(|c| c.is_ascii_digit()).collect();
    let rest = &body[digits.len()..];
    let fixed = rest.starts_with('!');
    let set = match rest.trim_start_matches('!') {
        "n" => Set::N,
        "a" => Set::A,
        "c" => Set::C,
        "h" => Set::H,
        "x" => Set::X,
        "z" => Set::Z,
        "d" => Set::D,
        "e" => Set::E,
        other => panic!("unknown set {other} in {tok}"),
    };
    let max: usize = digits.parse().unwrap();
    Comp { name, lit, set, min: if fixed { max } else { 1 }, max, optional }
}

fn split_comps(s: &str) -> Vec<String> {
    // split on blanks outside quotes / brackets
    let mut out = Vec::new();
    let mut cur = String::new();
    let mut inq = false;
    let mut depth = 0;
    for c in s.chars() {
        match c {
            '"' => {
                inq = !inq;
                cur.push(c);
            }
            '[' if !inq => {
                depth += 1;
                cur.push(c);
            }
            ']' if !inq => {
                depth -= 1;
                cur.push(c);
            }
            ' ' if !inq && depth == 0 => {
                if !cur.is_empty() {
                    out.push(std::mem::take(&mut cur));
                }
            }
            _ => cur.push(c),
        }
    }
    if !cur.is_empty() {
        out.push(cur);
    }
    out
}

pub fn parse_spec(ty: &'static str, s: &str) -> Spec {
    let mut lines = Vec::new();
    for l in s.split('|') {
        let mut l = l.trim();
        let mut optional = false;
        if let Some(r) = l.strip_prefix('?') {
            optional = true;
            l = r;
        }
        let mut repeat = 1;
        if let Some(star) = l.find('*')
            && l[..star].chars().all(|c| c.is_ascii_digit())
            && star > 0
        {
            repeat = l[..star].parse().unwrap();
            l = &l[star + 1..];
        }
        lines.push(Line { comps: split_comps(l).iter().map(|t| parse_comp(t)).collect(), optional, repeat });
    }
    Spec { ty, lines }
}

pub fn specs() -> Vec<Spec> {
    TABLE.iter().map(|(t, s)| parse_spec(t, s)).collect()
}

pub fn in_set(set: Set, c: char) -> bool {
    match set {
        Set::N => c.is_ascii_digit(),
        Set::A => c.is_ascii_uppercase(),
        Set::C => c.is_ascii_uppercase() || c.is_ascii_digit(),
        Set::H => c.is_ascii_digit() || ('A'..='F').contains(&c),
        // the crate documents its x set as the SWIFT x set plus "other printable ASCII"
        // (parse_swift_chars doc comment): / - ? : ( ) . , ' + { } SPACE % & * ; < = > @ [ ] _ $ ! " # |
        Set::X => c.is_ascii_alphanumeric() || "/-?:().,'+{} %&*;<=>@[]_$!\"#|".contains(c),
        Set::Z => c.is_ascii_alphanumeric() || "/-?:().,'+{} %&*;<=>@[]_$!\"#|\r\n".contains(c),
        Set::D => c.is_ascii_digit() || c == ',' || c == '.',
        Set::E => c == ' ',
    }
}

#[derive(Clone, Debug, PartialEq)]
pub enum Verdict {
    Accept,
    Reject(String),
    Unspecified(String),
}

fn leap(y: u32) -> bool {
    (y % 4 == 0 && y % 100 != 0) || y % 400 == 0
}
fn valid_date(s: &str) -> bool {
    if s.len() != 6 || !s.bytes().all(|b| b.is_ascii_digit()) {
        return false;
    }
    let yy: u32 = s[0..2].parse().unwrap();
    let mm: u32 = s[2..4].parse().unwrap();
    let dd: u32 = s[4..6].parse().unwrap();
    let y = if yy <= 49 { 2000 + yy } else { 1900 + yy };
    let dim = match mm {
        1 | 3 | 5 | 7 | 8 | 10 | 12 => 31,
        4 | 6 | 9 | 11 => 30,
        2 => {
            if leap(y) {
                29
            } else {
                28
            }
        }
        _ => 0,
    };
    dd >= 1 && dd <= dim
}

/// semantic check of one component value: Ok, Err(reason) = certainly outside the format,
/// or Unspecified
fn semantic(ty: &str, c: &Comp, v: &str) -> Verdict {
    match c.name.as_str() {
        "date" => {
            if valid_date(v) { Verdict::Accept } else { Verdict::Reject(format!("{}:not-a-calendar-date", c.name)) }
        }
        "time" => {
            let ok = v.len() == 4 && v[0..2].parse::<u32>().map(|h| h < 24).unwrap_or(false) && v[2..4].parse::<u32>().map(|m| m < 60).unwrap_or(false);
            if ok { Verdict::Accept } else { Verdict::Reject("time:not-a-clock-time".into()) }
        }
        "entry" => {
            // MMDD
            let ok = v.len() == 4 && v[0..2].parse::<u32>().map(|m| (1..=12).contains(&m)).unwrap_or(false) && v[2..4].parse::<u32>().map(|d| (1..=31).contains(&d)).unwrap_or(false);
            if ok { Verdict::Accept } else { Verdict::Unspecified("entry-date-range".into()) }
        }
        "offset" => {
            let h = v[0..2].parse::<u32>().unwrap_or(99);
            let m = v[2..4].parse::<u32>().unwrap_or(99);
            if m >= 60 || h >= 24 {
                Verdict::Reject("offset:not-an-offset".into())
            } else if h > 14 {
                Verdict::Unspecified("offset-hours-15-23".into())
            } else {
                Verdict::Accept
            }
        }
        "sign" => {
            if v == "+" || v == "-" { Verdict::Accept } else { Verdict::Reject("sign:not-plus-or-minus".into()) }
        }
        "bic" => {
            let b = v.as_bytes();
            let ok = (b.len() == 8 || b.len() == 11) && b[..6].iter().all(|x| x.is_ascii_uppercase()) && b[6..].iter().all(|x| x.is_ascii_uppercase() || x.is_ascii_digit());
            if ok { Verdict::Accept } else { Verdict::Reject("bic:not-4!a2!a2!c[3!c]".into()) }
        }
        "amount" | "rate" => {
            if v.contains('.') {
                // '.' as decimal separator is pinned lenient by the crate's unit tests: not judged
                return Verdict::Unspecified("dot-separator".into());
            }
            let commas = v.matches(',').count();
            if commas > 1 {
                return Verdict::Reject(format!("{}:more-than-one-comma", c.name));
            }
            if !v.starts_with(|ch: char| ch.is_ascii_digit()) {
                return Verdict::Reject(format!("{}:no-integer-digit", c.name));
            }
            if commas == 0 {
                return Verdict::Unspecified("integer-without-comma".into());
            }
            if v.chars().all(|ch| ch == '0' || ch == ',') {
                // the crate documents (and its error texts pin) "must be greater than zero" for the
                // transaction amounts 32A-D, 33B, the floor limit 34F and the rate 36: not judged there.
                // Everywhere else (balances, charges, sums, statement lines) zero is an ordinary amount.
                if matches!(ty, "Field32A" | "Field32B" | "Field32C" | "Field32D" | "Field33B" | "Field34F" | "Field36") {
                    return Verdict::Unspecified("zero-amount".into());
                }
            }
            if v.split_once(',').map(|x| x.1.len()).unwrap_or(0) > 2 && ty != "Field36" && ty != "Field37H" {
                // how many decimals are allowed depends on the currency: judged by C06
                return Verdict::Unspecified("decimals-vs-currency".into());
            }
            if ty == "Field36" {
                let x: f64 = v.replace(',', ".").parse().unwrap_or(0.0);
                if !(0.0001..=100000.0).contains(&x) {
                    return Verdict::Unspecified("rate-plausibility-range".into());
                }
            }
            Verdict::Accept
        }
        "ccy" => Verdict::Accept,
        // [/1!a][/34x]: where the code ends and the account begins is not settled once the account
        // itself contains a slash
        "account" if v.contains('/') => Verdict::Unspecified("account-containing-slash".into()),
        "dcmark" => {
            if v == "C" || v == "D" { Verdict::Accept } else { Verdict::Reject("dcmark:not-C-or-D".into()) }
        }
        "dcmark61" => {
            if ["C", "D", "RC", "RD"].contains(&v) { Verdict::Accept } else { Verdict::Reject("dcmark:not-C-D-RC-RD".into()) }
        }
        "neg" => {
            if v == "N" { Verdict::Accept } else { Verdict::Reject("neg:not-N".into()) }
        }
        "ttype" => {
            if ["S", "N", "F"].contains(&v) { Verdict::Accept } else { Verdict::Unspecified("transaction-type-letter".into()) }
        }
        "code13c" => {
            if ["SNDTIME", "CLSTIME", "RNCTIME", "REJTIME", "CUTTIME"].contains(&v) { Verdict::Accept } else { Verdict::Unspecified("13c-code-list".into()) }
        }
        "code23b" => {
            // SR 2025 closes the list (T36) to five codes; the crate's documentation adds URGP as a "common code" and
            // its parser takes a wider list, so other words stay unsettled - except the instruction codes of field
            // 23E (T47 / T48 lists), which name something else and are never a bank operation code
            const CODES_23E: &[&str] = &["CHQB", "CORT", "HOLD", "INTC", "PHOB", "PHOI", "PHON", "REPA", "SDVA", "TELB", "TELE", "TELI", "CMSW", "CMTO", "CMZB", "EQUI", "NETS", "OTHR", "RTGS"];
            if ["CRED", "CRTS", "SPAY", "SPRI", "SSTD"].contains(&v) {
                Verdict::Accept
            } else if CODES_23E.contains(&v) {
                Verdict::Reject(format!("code23b:instruction-code-of-23E={v}"))
            } else {
                Verdict::Unspecified("23b-code-list".into())
            }
        }
        "code71a" => {
            if ["BEN", "OUR", "SHA"].contains(&v) { Verdict::Accept } else { Verdict::Reject("code:not-BEN-OUR-SHA".into()) }
        }
        "ref" => {
            if ty == "Field61" {
                // the account owner's reference of a statement line is plain 16x; a slash next to the "//" that
                // introduces the bank reference makes the split ambiguous: not judged
                if v.contains('/') { Verdict::Unspecified("field61-reference-with-slash".into()) } else { Verdict::Accept }
            } else if v.starts_with('/') || v.ends_with('/') || v.contains("//") {
                Verdict::Reject("ref:slash-rule".into())
            } else {
                Verdict::Accept
            }
        }
        "func" => {
            // days are only allowed with the NOTICE function: other codes are not judged here
            if v == "NOT" { Verdict::Accept } else { Verdict::Unspecified("field23-function-days-interplay".into()) }
        }
        "code23e" => {
            // documented 4!c, every known instruction code is alphabetic
            if v.chars().all(|ch| ch.is_ascii_uppercase()) { Verdict::Accept } else { Verdict::Unspecified("23e-code-with-digits".into()) }
        }
        "text" if ty == "Field23" => {
            // "NOT15": the two digits may be read as days, leaving no reference
            if v.len() >= 2 && v.chars().take(2).all(|ch| ch.is_ascii_digit()) { Verdict::Unspecified("field23-days-or-text".into()) } else { Verdict::Accept }
        }
        "days" | "text" => {
            // Field23: days only together with the NOTICE function (crate doc); everything else about the
            // interplay is left to the parser
            Verdict::Accept
        }
        "type" => Verdict::Accept,
        "lineno" => Verdict::Accept,
        _ => Verdict::Accept,
    }
}

/// match one text line against the components from index k; returns the best verdict
fn match_line(ty: &str, comps: &[Comp], k: usize, text: &[char], pos: usize, unspecified: &mut Option<String>, furthest: &mut (usize, String)) -> bool {
    if k == comps.len() {
        if pos == text.len() {
            return true;
        }
        if pos >= furthest.0 {
            *furthest = (pos, format!("{}:trailing-characters", comps.last().map(|c| c.name.as_str()).unwrap_or("")));
        }
        return false;
    }
    let c = &comps[k];
    // skip an optional component
    if c.optional {
        let mut u2 = unspecified.clone();
        if match_line(ty, comps, k + 1, text, pos, &mut u2, furthest) {
            *unspecified = u2;
            return true;
        }
    }
    // literal
    let lit: Vec<char> = c.lit.chars().collect();
    if pos + lit.len() > text.len() || text[pos..pos + lit.len()] != lit[..] {
        if pos >= furthest.0 && !c.optional {
            *furthest = (pos, format!("{}:missing-{}", c.name, if lit.is_empty() { "component" } else { "separator" }));
        }
        return false;
    }
    let p = pos + lit.len();
    if c.max == 0 {
        return match_line(ty, comps, k + 1, text, p, unspecified, furthest);
    }
    // longest run of set characters
    let mut run = 0;
    while p + run < text.len() && in_set(c.set, text[p + run]) && run < c.max {
        run += 1;
    }
    if run < c.min {
        if p + run >= furthest.0 {
            let why = if p + run < text.len() && !in_set(c.set, text[p + run]) { "character-outside-set" } else { "too-short" };
            *furthest = (p + run, format!("{}:{}", c.name, why));
        }
        return false;
    }
    let mut len = run;
    loop {
        let v: String = text[p..p + len].iter().collect();
        match semantic(ty, c, &v) {
            Verdict::Accept => {
                let mut u2 = unspecified.clone();
                if match_line(ty, comps, k + 1, text, p + len, &mut u2, furthest) {
                    *unspecified = u2;
                    return true;
                }
            }
            Verdict::Unspecified(why) => {
                let mut u2 = Some(why);
                if match_line(ty, comps, k + 1, text, p + len, &mut u2, furthest) {
                    *unspecified = u2;
                    return true;
                }
            }
            Verdict::Reject(why) => {
                if p + len >= furthest.0 {
                    *furthest = (p + len, why);
                }
            }
        }
        if len == c.min {
            break;
        }
        len -= 1;
    }
    // the run stopped because of the maximum: the next character may belong to this component
    if run == c.max && p + run < text.len() && in_set(c.set, text[p + run]) && p + run >= furthest.0 {
        *furthest = (p + run, format!("{}:too-long", c.name));
    }
    false
}

/// Reference acceptor. Trailing line ends are not judged (the message parser never passes them).
pub fn classify(spec: &Spec, content: &str) -> Verdict {
    if content.contains('\r') {
        // the message parser hands LF-separated content to the field parsers; CR at field level is not judged
        return Verdict::Unspecified("carriage-return-at-field-level".into());
    }
    let norm = content.replace("\r\n", "\n");
    if norm.ends_with('\n') {
        return Verdict::Unspecified("trailing-newline".into());
    }
    if spec.ty == "Field77T" {
        // one component over the z set including line breaks
        if norm.is_empty() {
            return Verdict::Reject("envelope:empty".into());
        }
        if norm.chars().count() > 9000 {
            return Verdict::Reject("envelope:too-long".into());
        }
        return match norm.chars().find(|c| !in_set(Set::Z, *c)) {
            Some(_) => Verdict::Reject("envelope:character-outside-set".into()),
            None => Verdict::Accept,
        };
    }
    let lines: Vec<Vec<char>> = norm.split('\n').map(|l| l.chars().collect()).collect();
    let mut best_reject = (0usize, 0usize, String::from("no-derivation"));
    let mut unspec: Option<String> = None;
    fn rec(spec: &Spec, li: usize, lines: &[Vec<char>], j: usize, unspec: &mut Option<String>, best: &mut (usize, usize, String)) -> bool {
        if li == spec.lines.len() {
            if j == lines.len() {
                return true;
            }
            if (j, 0) >= (best.0, best.1) {
                let last = &spec.lines[spec.lines.len() - 1];
                let what = if lines[j].is_empty() { "empty-line" } else if last.repeat > 1 { "more-lines-than-maximum" } else { "extra-line" };
                *best = (j, 0, format!("{}:{}", last.comps.last().map(|c| c.name.as_str()).unwrap_or(""), what));
            }
            return false;
        }
        let l = &spec.lines[li];
        // zero occurrences
        if l.optional {
            let mut u2 = unspec.clone();
            // SWIFT reads a first line that starts with a slash as the account / party identifier,
            // never as a name line: a derivation that skips the optional slash line over such a
            // line is not settled
            if j < lines.len() && lines[j].first() == Some(&'/') && l.comps.iter().any(|c| c.lit.starts_with('/')) {
                u2 = Some("slash-first-line-read-as-text".into());
            }
            if rec(spec, li + 1, lines, j, &mut u2, best) {
                *unspec = u2;
                return true;
            }
        }
        // 1..repeat occurrences
        let mut jj = j;
        let mut u_acc = unspec.clone();
        for _ in 0..l.repeat {
            if jj >= lines.len() {
                if (jj, 0) >= (best.0, best.1) && jj == j && !l.optional {
                    *best = (jj, 0, format!("{}:missing-line", l.comps.first().map(|c| c.name.as_str()).unwrap_or("")));
                }
                break;
            }
            let mut furthest = (0usize, String::new());
            let mut u2 = u_acc.clone();
            // an empty line is outside every format
            if lines[jj].is_empty() || !match_line(spec.ty, &l.comps, 0, &lines[jj], 0, &mut u2, &mut furthest) {
                if (jj, furthest.0) >= (best.0, best.1) {
                    let why = if lines[jj].is_empty() { format!("{}:empty-line", l.comps.first().map(|c| c.name.as_str()).unwrap_or("")) } else { furthest.1.clone() };
                    *best = (jj, furthest.0, why);
                }
                break;
            }
            u_acc = u2;
            jj += 1;
            let mut u3 = u_acc.clone();
            if rec(spec, li + 1, lines, jj, &mut u3, best) {
                *unspec = u3;
                return true;
            }
        }
        false
    }
    if spec.ty == "Field28D"
        && let Some((a, b)) = norm.split_once('/')
        && let (Ok(a), Ok(b)) = (a.parse::<u64>(), b.parse::<u64>())
        && a > b
    {
        return Verdict::Reject("index:exceeds-total".into());
    }
    // numbered lines: the documentation gives 1!n/33x; which numbers and which order are allowed is
    // not settled by it, so only the consecutive sequence 1,2,3,.. is judged
    if spec.lines.iter().any(|l| l.comps.iter().any(|c| c.name == "lineno")) {
        let nums: Vec<String> = lines
            .iter()
            .filter(|l| l.len() >= 2 && l[0].is_ascii_digit() && l[1] == '/')
            .map(|l| l[0].to_string())
            .collect();
        let consecutive = nums.iter().enumerate().all(|(i, n)| *n == (i + 1).to_string());
        // certain under every reading (position of the line, or the standard's ascending code numbers): there is
        // no number 0 and the numbers never go down
        if nums.iter().any(|n| n == "0") {
            return Verdict::Reject("lineno:zero".into());
        }
        if nums.windows(2).any(|w| w[1] < w[0]) {
            return Verdict::Reject("lineno:decreasing".into());
        }
        if !consecutive {
            unspec = Some("line-number-sequence".into());
        }
    }
    if rec(spec, 0, &lines, 0, &mut unspec, &mut best_reject) {
        // Field61: the crate documents the account-owner reference as optional ([16x]) while the
        // standard makes it mandatory: a content without it is not judged
        if spec.ty == "Field61" && unspec.is_none() {
            let first: String = lines[0].iter().collect();
            let after_type = first.find(|c: char| c == ',').map(|i| {
                let rest = &first[i + 1..];
                let digits = rest.chars().take_while(|c| c.is_ascii_digit()).count();
                rest[digits..].chars().count()
            });
            if after_type == Some(4) {
                return Verdict::Unspecified("field61-reference-absent".into());
            }
        }
        match unspec {
            Some(why) => Verdict::Unspecified(why),
            None => Verdict::Accept,
        }
    } else {
        Verdict::Reject(best_reject.2)
    }
}

// ---------------------------------------------------------------------------------------------
// Candidate generation

fn sample(c: &Comp, len: usize, k: usize) -> String {
    match c.name.as_str() {
        "date" => "250615".into(),
        "time" => "1230".into(),
        "entry" => "0616".into(),
        "offset" => "0100".into(),
        "sign" => "+".into(),
        "bic" => {
            if len >= 11 { "DEUTDEFF500".into() } else { "DEUTDEFF".into() }
        }
        "ccy" => ["USD", "EUR", "GBP"][k % 3].into(),
        "dcmark" | "dcmark61" => ["C", "D"][k % 2].into(),
        "neg" => "N".into(),
        "ttype" => "N".into(),
        "tcode" => "TRF".into(),
        "code13c" => "SNDTIME".into(),
        "code23b" => "CRED".into(),
        "code23e" => "CHQBPHONTELEHOLD".chars().cycle().take(len).collect(),
        "code71a" => ["SHA", "OUR", "BEN"][k % 3].into(),
        "code" if c.set == Set::A && c.max == 1 => "D".into(),
        "func" => "NOT".into(),
        "days" => "15".into(),
        "mt" => "103".into(),
        "type" => "940".into(),
        "lineno" => "1".into(),
        "amount" | "rate" => {
            // digits , two decimals within len
            // exactly `len` characters where possible: digits, comma, two decimals
            match len {
                0 => String::new(),
                1 => "7".into(),
                2 => "7,".into(),
                3 => "7,5".into(),
                _ => {
                    let int = len - 3;
                    let digits: String = "1234567891".chars().cycle().skip(k % 5).take(int).collect();
                    format!("{},{}", if digits.starts_with('0') { digits.replacen('0', "1", 1) } else { digits }, "50")
                }
            }
        }
        _ => {
            let alphabet: Vec<char> = match c.set {
                Set::N => "1234567890".chars().collect(),
                Set::A => "ABCDEFGHJK".chars().collect(),
                Set::C => "AB12CD34EF".chars().collect(),
                Set::H => "0123ABCDEF".chars().collect(),
                Set::X | Set::Z => "Ab1 cD2-eF".chars().collect(),
                Set::D => "123456789".chars().collect(),
                Set::E => vec![' '],
            };
            let mut s: String = (0..len).map(|i| alphabet[(i + k) % alphabet.len()]).collect();
            if matches!(c.set, Set::X | Set::Z) {
                // no leading/trailing blank, no leading slash or dash or colon
                let b: Vec<char> = s.chars().collect();
                let mut b2 = b.clone();
                if let Some(f) = b2.first_mut()
                    && !f.is_ascii_alphanumeric()
                {
                    *f = 'A';
                }
                if let Some(l) = b2.last_mut()
                    && !l.is_ascii_alphanumeric()
                {
                    *l = 'Z';
                }
                s = b2.into_iter().collect();
            }
            s
        }
    }
}

#[derive(Clone, Debug)]
pub struct Candidate {
    pub content: String,
    /// component the mutation targets ("-" for whole-content mutations)
    pub component: String,
    /// class label by construction
    pub class: String,
}

fn typical_len(c: &Comp) -> usize {
    if c.min == c.max { c.max } else { ((c.min + c.max) / 2).max(c.min).min(c.max).min(20).max(c.min) }
}

/// render the canonical instance; `over` overrides (line, comp) -> text, `lines_of` overrides repeat counts
fn render(spec: &Spec, k: usize, over: &dyn Fn(usize, usize, usize) -> Option<String>, counts: &dyn Fn(usize) -> usize) -> String {
    let mut out: Vec<String> = Vec::new();
    for (li, l) in spec.lines.iter().enumerate() {
        for rep in 0..counts(li) {
            let mut s = String::new();
            for (ci, c) in l.comps.iter().enumerate() {
                match over(li, ci, rep) {
                    Some(t) => s.push_str(&t),
                    None => {
                        s.push_str(&c.lit);
                        if c.max > 0 {
                            let mut v = sample(c, typical_len(c), k + rep + ci);
                            if c.name == "lineno" {
                                v = format!("{}", rep + 1);
                            }
                            s.push_str(&v);
                        }
                    }
                }
            }
            out.push(s);
        }
    }
    out.join("\n")
}

const CLASS_CHARS: &[(&str, char)] = &[
    ("digit", '7'),
    ("zero", '0'),
    ("upper", 'Q'),
    ("lower", 'q'),
    ("blank", ' '),
    ("x-punct", '?'),
    ("slash", '/'),
    ("comma", ','),
    ("plus", '+'),
    ("minus", '-'),
    ("dot", '.'),
    ("documented-extra-ascii", '#'),
    ("non-swift-ascii", '~'),
    ("backslash", '\\'),
    ("control-tab", '\t'),
    ("non-ascii-letter", 'é'),
    ("non-ascii-digit", '٣'),
];

pub fn candidates(spec: &Spec, k: usize, r: &mut Rng, random_extra: usize) -> Vec<Candidate> {
    let mut out: Vec<Candidate> = Vec::new();
    let default_counts = |li: usize| -> usize {
        let l = &spec.lines[li];
        if l.repeat > 1 { 2.min(l.repeat) } else { 1 }
    };
    let none = |_: usize, _: usize, _: usize| -> Option<String> { None };
    let canonical = render(spec, k, &none, &default_counts);
    out.push(Candidate { content: canonical.clone(), component: "-".into(), class: "canonical".into() });
    // party identifier ([/1!a][/34x] on the first line): code part of two letters or one digit (clearing-system
    // codes such as /CH/, /FW/ are written that way) with each character class inside the identifier behind it
    if let Some(l0) = spec.lines.first()
        && l0.comps.len() >= 2
        && l0.comps[0].name == "code"
        && l0.comps[1].name == "account"
    {
        let rest: String = canonical.lines().skip(if canonical.starts_with('/') { 1 } else { 0 }).collect::<Vec<_>>().join("\n");
        for code in ["CH", "FW", "1", "C"] {
            for (cname, ch) in CLASS_CHARS {
                for id in [format!("12{ch}456"), format!("{ch}12345"), format!("12345{ch}")] {
                    let first = format!("/{code}/{id}");
                    let content = if rest.is_empty() { first } else { format!("{first}\n{rest}") };
                    out.push(Candidate { content, component: "account".into(), class: format!("class={cname},code-part={code}") });
                }
            }
            let first = format!("/{code}/");
            out.push(Candidate { content: if rest.is_empty() { first } else { format!("{first}\n{rest}") }, component: "account".into(), class: format!("len=0,code-part={code}") });
        }
    }
    // numbered lines: sequences of line numbers other than 1, 2, 3, ...
    if spec.lines.iter().any(|l| l.comps.iter().any(|c| c.name == "lineno")) {
        let account = canonical.lines().next().filter(|l| l.starts_with('/')).map(|l| format!("{l}\n")).unwrap_or_default();
        for (lab, seq) in [("0", vec![0]), ("0,1", vec![0, 1]), ("1,0", vec![1, 0]), ("2,1", vec![2, 1]), ("1,2,3,2", vec![1, 2, 3, 2]), ("1,3,2", vec![1, 3, 2]), ("1,2,1", vec![1, 2, 1]), ("1,1", vec![1, 1]), ("1,2,2", vec![1, 2, 2]), ("2", vec![2]), ("1,3", vec![1, 3])] {
            let body: Vec<String> = seq.iter().enumerate().map(|(i, n)| format!("{n}/TEXT LINE {}", i + 1)).collect();
            for acc in [account.as_str(), ""] {
                out.push(Candidate { content: format!("{acc}{}", body.join("\n")), component: "lineno".into(), class: format!("line-numbers={lab}") });
            }
        }
    }
    // minimal: optional lines / components absent, one repetition
    {
        let counts = |li: usize| if spec.lines[li].optional { 0 } else { 1 };
        let over = |li: usize, ci: usize, _rep: usize| if spec.lines[li].comps[ci].optional { Some(String::new()) } else { None };
        out.push(Candidate { content: render(spec, k, &over, &counts), component: "-".into(), class: "minimal".into() });
    }
    // maximal lengths and repetitions
    {
        let counts = |li: usize| spec.lines[li].repeat;
        let over = |li: usize, ci: usize, rep: usize| {
            let c = &spec.lines[li].comps[ci];
            if c.max == 0 {
                return None;
            }
            let mut v = sample(c, c.max, k + rep + ci);
            if c.name == "lineno" {
                v = format!("{}", rep + 1);
            }
            Some(format!("{}{}", c.lit, v))
        };
        out.push(Candidate { content: render(spec, k, &over, &counts), component: "-".into(), class: "maximal".into() });
    }
    for (li, l) in spec.lines.iter().enumerate() {
        for (ci, c) in l.comps.iter().enumerate() {
            if c.max == 0 {
                continue;
            }
            let comp_label = c.name.clone();
            // lengths 0 .. max+2 (free-form components only; semantic ones keep their shape)
            let free = !matches!(c.name.as_str(), "date" | "time" | "entry" | "offset" | "sign" | "bic" | "ccy" | "dcmark" | "dcmark61" | "neg" | "ttype" | "tcode" | "code13c" | "code23b" | "code71a" | "lineno" | "mt" | "type" | "func" | "days");
            let mut lens: Vec<usize> = vec![0, c.min.saturating_sub(1), c.min, c.max, c.max + 1, c.max + 2];
            if !free {
                lens = vec![0, c.max.saturating_sub(1), c.max + 1, c.max + 2];
            }
            lens.sort();
            lens.dedup();
            for len in lens {
                let label = if len == 0 {
                    "len=0".to_string()
                } else if len < c.min {
                    "len=min-1".to_string()
                } else if len == c.min && len != c.max {
                    "len=min".to_string()
                } else if len == c.max {
                    "len=max".to_string()
                } else if len == c.max + 1 {
                    "len=max+1".to_string()
                } else if len == c.max + 2 {
                    "len=max+2".to_string()
                } else {
                    format!("len={len}")
                };
                let over = |l2: usize, c2: usize, rep: usize| {
                    if l2 == li && c2 == ci && rep == 0 {
                        let base = sample(c, len.max(1), k);
                        let v: String = if len == 0 {
                            String::new()
                        } else if matches!(c.name.as_str(), "amount" | "rate") {
                            sample(c, len, k)
                        } else {
                            base.chars().cycle().take(len).collect()
                        };
                        Some(format!("{}{}", c.lit, v))
                    } else {
                        None
                    }
                };
                out.push(Candidate { content: render(spec, k, &over, &default_counts), component: comp_label.clone(), class: label.clone() });
                // the boundary lengths with the optional lines *before* the component absent (single-line forms
                // of two-line fields take their own code path)
                if (len == c.max || len == c.max + 1 || len == c.min) && len > 0 && spec.lines.iter().take(li).any(|x| x.optional) {
                    let counts0 = |l2: usize| if l2 < li && spec.lines[l2].optional { 0 } else { default_counts(l2) };
                    out.push(Candidate { content: render(spec, k, &over, &counts0), component: comp_label.clone(), class: format!("{label},earlier-lines-absent") });
                }
                // the boundary lengths again with everything optional after the component absent (a
                // length check that only works when something follows, or that mistakes the rest)
                if (len == c.max || len == c.min) && len > 0 {
                    let later_optional = spec.lines[li].comps.iter().skip(ci + 1).any(|x| x.optional) || spec.lines.iter().skip(li + 1).any(|x| x.optional);
                    if later_optional {
                        let over2 = |l2: usize, c2: usize, rep: usize| {
                            if l2 == li && c2 == ci && rep == 0 {
                                over(l2, c2, rep)
                            } else if l2 == li && c2 > ci && spec.lines[l2].comps[c2].optional {
                                Some(String::new())
                            } else {
                                None
                            }
                        };
                        let counts2 = |l2: usize| if l2 > li && spec.lines[l2].optional { 0 } else { default_counts(l2) };
                        out.push(Candidate { content: render(spec, k, &over2, &counts2), component: comp_label.clone(), class: format!("{label},rest-absent") });
                    }
                }
            }
            // character classes at first / middle / last position
            let base = sample(c, typical_len(c), k + ci);
            let n = base.chars().count();
            let mut positions = vec![("first", 0usize)];
            if n > 2 {
                positions.push(("middle", n / 2));
            }
            if n > 1 {
                positions.push(("last", n - 1));
            }
            for (pname, pidx) in positions {
                for (cname, ch) in CLASS_CHARS {
                    let v: String = base.chars().enumerate().map(|(i, x)| if i == pidx { *ch } else { x }).collect();
                    let over = |l2: usize, c2: usize, rep: usize| if l2 == li && c2 == ci && rep == 0 { Some(format!("{}{}", c.lit, v)) } else { None };
                    out.push(Candidate { content: render(spec, k, &over, &default_counts), component: comp_label.clone(), class: format!("class={cname}@{pname}") });
                    // and with the optional lines after it absent (single-line forms take other code paths)
                    if spec.lines.iter().skip(li + 1).any(|x| x.optional) {
                        let counts2 = |l2: usize| if l2 > li && spec.lines[l2].optional { 0 } else { default_counts(l2) };
                        out.push(Candidate { content: render(spec, k, &over, &counts2), component: comp_label.clone(), class: format!("class={cname}@{pname},later-lines-absent") });
                    }
                }
            }
            // a BIC has two shapes: the classes again on the 11-character form, in the bank, country,
            // location and branch part
            if c.name == "bic" && c.max >= 11 {
                let base11 = sample(c, 11, k + ci);
                for (pname, pidx) in [("bank", 1usize), ("country", 4), ("location", 7), ("branch-first", 8), ("branch-last", 10)] {
                    for (cname, ch) in CLASS_CHARS {
                        let v: String = base11.chars().enumerate().map(|(i, x)| if i == pidx { *ch } else { x }).collect();
                        let over = |l2: usize, c2: usize, rep: usize| if l2 == li && c2 == ci && rep == 0 { Some(format!("{}{}", c.lit, v)) } else { None };
                        out.push(Candidate { content: render(spec, k, &over, &default_counts), component: comp_label.clone(), class: format!("class={cname}@{pname}") });
                    }
                }
            }
            // code words of *other* fields in a closed code list, and a lone special character as the whole value
            if matches!(c.name.as_str(), "code23b" | "code71a" | "func" | "ttype" | "dcmark" | "dcmark61") {
                for wd in ["CHQB", "CORT", "HOLD", "INTC", "PHOB", "PHOI", "PHON", "REPA", "SDVA", "TELB", "TELE", "TELI", "CMSW", "CMTO", "CMZB", "EQUI", "NETS", "OTHR", "RTGS", "URGP", "CRED", "SPRI", "SHA", "OUR", "BEN", "NAUT", "AUTH", "RFDD", "C", "D", "RC", "RD", "N", "S", "F"] {
                    let over = |l2: usize, c2: usize, rep: usize| if l2 == li && c2 == ci && rep == 0 { Some(format!("{}{}", c.lit, wd)) } else { None };
                    out.push(Candidate { content: render(spec, k, &over, &default_counts), component: comp_label.clone(), class: format!("other-code-word={wd}") });
                }
            }
            if free {
                for ch in ["/", "-", ":", ",", ".", "+", " "] {
                    let over = |l2: usize, c2: usize, rep: usize| if l2 == li && c2 == ci && rep == 0 { Some(format!("{}{}", c.lit, ch)) } else { None };
                    out.push(Candidate { content: render(spec, k, &over, &default_counts), component: comp_label.clone(), class: format!("lone-character={ch}") });
                    if spec.lines.iter().skip(li + 1).any(|x| x.optional) || spec.lines[li].comps.iter().skip(ci + 1).any(|x| x.optional) {
                        let over2 = |l2: usize, c2: usize, rep: usize| {
                            if l2 == li && c2 == ci && rep == 0 {
                                Some(format!("{}{}", c.lit, ch))
                            } else if l2 == li && c2 > ci && spec.lines[l2].comps[c2].optional {
                                Some(String::new())
                            } else {
                                None
                            }
                        };
                        let counts2 = |l2: usize| if l2 > li && spec.lines[l2].optional { 0 } else { default_counts(l2) };
                        out.push(Candidate { content: render(spec, k, &over2, &counts2), component: comp_label.clone(), class: format!("lone-character={ch},rest-absent") });
                    }
                }
            }
            // two consecutive slashes inside a free-text component (references must not contain them)
            if free && c.max >= 6 && c.lit.is_empty() {
                let base = sample(c, typical_len(c).max(6), k + ci);
                let n = base.chars().count();
                let v: String = base.chars().enumerate().map(|(i, x)| if i == n / 2 || i == n / 2 + 1 { '/' } else { x }).collect();
                let over = |l2: usize, c2: usize, rep: usize| if l2 == li && c2 == ci && rep == 0 { Some(v.clone()) } else { None };
                out.push(Candidate { content: render(spec, k, &over, &default_counts), component: comp_label.clone(), class: "double-slash-inside".into() });
            }
            // dates around the century window, a leap day, year ends
            if c.name == "date" {
                for d in ["491231", "500101", "501231", "510101", "791231", "800101", "991231", "000101", "240229", "241230", "250101", "20250615", "19240719", "2025-06-15", "15062025"] {
                    let over = |l2: usize, c2: usize, rep: usize| if l2 == li && c2 == ci && rep == 0 { Some(format!("{}{}", c.lit, d)) } else { None };
                    out.push(Candidate { content: render(spec, k, &over, &default_counts), component: comp_label.clone(), class: format!("date={d}") });
                }
            }
            // currencies with 0, 3 and 4 decimals together with an amount of that precision
            if c.name == "ccy"
                && let Some(ai) = spec.lines[li].comps.iter().position(|x| x.name == "amount")
            {
                for (cy, am) in [("JPY", "6000000,"), ("JPY", "123,"), ("KRW", "1,"), ("KWD", "999,875"), ("BHD", "12,345"), ("CLF", "1,2345"), ("EUR", "10,5"), ("USD", "999999999999,99")] {
                    let alit = spec.lines[li].comps[ai].lit.clone();
                    let over = |l2: usize, c2: usize, rep: usize| {
                        if l2 == li && c2 == ci && rep == 0 {
                            Some(format!("{}{}", c.lit, cy))
                        } else if l2 == li && c2 == ai && rep == 0 {
                            Some(format!("{}{}", alit, am))
                        } else {
                            None
                        }
                    };
                    out.push(Candidate { content: render(spec, k, &over, &default_counts), component: comp_label.clone(), class: format!("ccy={cy}{am}") });
                }
            }
            // over-long amounts / rates of ordinary magnitude (a length limit hidden behind a range check), and
            // a missing integer part
            if matches!(c.name.as_str(), "amount" | "rate") {
                for extra in [1usize, 3] {
                    let v = format!("1,{}", "2345678901234567890".chars().take(c.max + extra - 2).collect::<String>());
                    let over = |l2: usize, c2: usize, rep: usize| if l2 == li && c2 == ci && rep == 0 { Some(format!("{}{}", c.lit, v)) } else { None };
                    out.push(Candidate { content: render(spec, k, &over, &default_counts), component: comp_label.clone(), class: format!("len=max+{extra},small-integer-part") });
                }
                for v in [",50", ",5", ","] {
                    let over = |l2: usize, c2: usize, rep: usize| if l2 == li && c2 == ci && rep == 0 { Some(format!("{}{}", c.lit, v)) } else { None };
                    out.push(Candidate { content: render(spec, k, &over, &default_counts), component: comp_label.clone(), class: format!("no-integer-part={v}") });
                }
            }
            // integers without the comma at and just below the maximum length; many decimals (rates); whatever the
            // library takes of these must survive its own serialisation (C02 / C08)
            if matches!(c.name.as_str(), "amount" | "rate") {
                for (lab, v) in [
                    ("no-comma,len=max", "9".repeat(c.max)),
                    ("no-comma,len=max-1", "8".repeat(c.max.saturating_sub(1).max(1))),
                    ("many-decimals,len=max", format!("0,{}", "9259259123456789".chars().take(c.max.saturating_sub(2)).collect::<String>())),
                    ("seven-decimals", "1,2345678".to_string()),
                ] {
                    let over = |l2: usize, c2: usize, rep: usize| if l2 == li && c2 == ci && rep == 0 { Some(format!("{}{}", c.lit, v)) } else { None };
                    out.push(Candidate { content: render(spec, k, &over, &default_counts), component: comp_label.clone(), class: lab.to_string() });
                }
            }
            // zero amounts / rates
            if matches!(c.name.as_str(), "amount" | "rate") {
                for z in ["0,", "0,00"] {
                    let over = |l2: usize, c2: usize, rep: usize| if l2 == li && c2 == ci && rep == 0 { Some(format!("{}{}", c.lit, z)) } else { None };
                    out.push(Candidate { content: render(spec, k, &over, &default_counts), component: comp_label.clone(), class: format!("zero={z}") });
                }
            }
            // separator missing / doubled
            if !c.lit.is_empty() {
                let v = sample(c, typical_len(c), k + ci);
                let over1 = |l2: usize, c2: usize, rep: usize| if l2 == li && c2 == ci && rep == 0 { Some(v.clone()) } else { None };
                out.push(Candidate { content: render(spec, k, &over1, &default_counts), component: comp_label.clone(), class: "separator-missing".into() });
                let over2 = |l2: usize, c2: usize, rep: usize| if l2 == li && c2 == ci && rep == 0 { Some(format!("{}{}{}", c.lit, c.lit, v)) } else { None };
                out.push(Candidate { content: render(spec, k, &over2, &default_counts), component: comp_label.clone(), class: "separator-doubled".into() });
            }
            // embedded newline inside the component
            if n >= 2 {
                let v: String = base.chars().enumerate().flat_map(|(i, x)| if i == n / 2 { vec!['\n', x] } else { vec![x] }).collect();
                let over = |l2: usize, c2: usize, rep: usize| if l2 == li && c2 == ci && rep == 0 { Some(format!("{}{}", c.lit, v)) } else { None };
                out.push(Candidate { content: render(spec, k, &over, &default_counts), component: comp_label.clone(), class: "embedded-newline".into() });
            }
        }
        // line-level classes
        let lname = l.comps.iter().find(|c| c.max > 0).map(|c| c.name.clone()).unwrap_or_default();
        {
            let counts = |l2: usize| if l2 == li { 0 } else { default_counts(l2) };
            out.push(Candidate { content: render(spec, k, &none, &counts), component: lname.clone(), class: "line-missing".into() });
        }
        for extra in [1usize, 2] {
            let counts = |l2: usize| if l2 == li { spec.lines[li].repeat + extra } else { default_counts(l2) };
            out.push(Candidate { content: render(spec, k, &none, &counts), component: lname.clone(), class: format!("lines=max+{extra}") });
            // the same with every other optional line absent (a limit that counts an optional line in)
            if spec.lines.iter().enumerate().any(|(l2, x)| l2 != li && x.optional) {
                let counts = |l2: usize| if l2 == li { spec.lines[li].repeat + extra } else if spec.lines[l2].optional { 0 } else { default_counts(l2) };
                out.push(Candidate { content: render(spec, k, &none, &counts), component: lname.clone(), class: format!("lines=max+{extra},optional-lines-absent") });
            }
        }
    }
    // whole-content classes
    out.push(Candidate { content: String::new(), component: "-".into(), class: "empty".into() });
    out.push(Candidate { content: format!("{canonical}X"), component: "-".into(), class: "trailing-chars".into() });
    out.push(Candidate { content: format!("{canonical} "), component: "-".into(), class: "trailing-blank".into() });
    out.push(Candidate { content: format!(" {canonical}"), component: "-".into(), class: "leading-blank".into() });
    out.push(Candidate { content: format!("{canonical}\nEXTRA LINE"), component: "-".into(), class: "extra-line-after-last".into() });
    out.push(Candidate { content: format!("{canonical}\n"), component: "-".into(), class: "trailing-newline".into() });
    out.push(Candidate { content: format!("\n{canonical}"), component: "-".into(), class: "leading-empty-line".into() });
    if canonical.contains('\n') {
        out.push(Candidate { content: canonical.replacen('\n', "\n\n", 1), component: "-".into(), class: "empty-line-inside".into() });
        out.push(Candidate { content: canonical.replace('\n', "\r\n"), component: "-".into(), class: "crlf".into() });
    }
    out.push(Candidate { content: canonical.to_lowercase(), component: "-".into(), class: "all-lowercase".into() });
    // seeded random: random edits of the canonical instance and random strings over mixed alphabets
    let alphabet: Vec<char> = "AZaz09/-?:().,'+ #~^\n\\é٣".chars().collect();
    for i in 0..random_extra {
        let mut chars: Vec<char> = canonical.chars().collect();
        if i % 3 == 0 || chars.is_empty() {
            let len = 1 + r.below(40);
            out.push(Candidate { content: r.string(&alphabet, len), component: "-".into(), class: "random-string".into() });
        } else {
            let edits = 1 + r.below(2);
            for _ in 0..edits {
                let p = r.below(chars.len().max(1));
                match r.below(3) {
                    0 if !chars.is_empty() => {
                        chars[p] = *r.pick(&alphabet);
                    }
                    1 if !chars.is_empty() => {
                        chars.remove(p);
                    }
                    _ => chars.insert(p.min(chars.len()), *r.pick(&alphabet)),
                }
            }
            out.push(Candidate { content: chars.into_iter().collect(), component: "-".into(), class: "random-edit".into() });
        }
    }
    out
}
