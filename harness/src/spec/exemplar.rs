//! Exemplar contents per tag+option, written from the documented formats (DESIGN.md Appendix E:
//! the crate's own `Format:` doc comments). `k` makes each occurrence unique (so that a value that
//! ends up at the wrong place is visible), `variant` selects typical / short / long spellings.
//! The message generator turns each exemplar into the library's own canonical spelling first
//! (see c03::canonical), so spelling of numbers is never judged here.

fn bic(k: usize, long: bool) -> String {
    let a = (b'A' + (k % 26) as u8) as char;
    let b = (b'A' + ((k / 26) % 26) as u8) as char;
    if long { format!("BK{a}{b}DEFFXXX") } else { format!("BK{a}{b}DEFF") }
}

fn pad_to(s: &str, n: usize) -> String {
    let mut out = s.to_string();
    let fill = "ABCDEFGHIJKLMNOPQRSTUVWXYZ0123456789";
    let mut i = 0;
    while out.len() < n {
        out.push(fill.as_bytes()[i % fill.len()] as char);
        i += 1;
    }
    out.truncate(n);
    out
}

fn lines(prefix: &str, k: usize, n: usize, width: usize, long: bool) -> String {
    (0..n)
        .map(|i| {
            let base = format!("{prefix} {k} LINE {}", i + 1);
            if long { pad_to(&format!("{base} "), width) } else { base }
        })
        .collect::<Vec<_>>()
        .join("\n")
}

fn amount(k: usize, variant: usize) -> String {
    match variant {
        0 => format!("{},{:02}", 1000 + k, k % 100),
        1 => format!("{},00", k + 1),
        _ => format!("9876543{:05},{:02}", k % 100000, (k * 7) % 100),
    }
}

const CCY: &[&str] = &["USD", "EUR", "GBP", "CHF"];

pub fn content(mt: &str, tag: &str, k: usize, variant: usize) -> String {
    let long = variant == 2;
    let short = variant == 1;
    let ccy = CCY[k % CCY.len()];
    let party = |k: usize| -> String {
        match variant {
            0 => format!("/ACC{k:06}\n"),
            1 => String::new(),
            _ => format!("/{}\n", pad_to(&format!("LONGACC{k}X"), 34)),
        }
    };
    match tag {
        "11R" | "11S" => {
            if short { format!("103{:02}{:02}{:02}", 20 + k % 29, 1 + k % 12, 1 + k % 28) } else { format!("202{:02}{:02}{:02}78{:02}9{:05}", 20 + k % 29, 1 + k % 12, 1 + k % 28, k % 100, 40000 + k % 50000) }
        }
        "12" => ["940", "941", "942", "950"][k % 4].to_string(),
        "13C" => format!("/{}/{:02}{:02}{}{:02}00", ["SNDTIME", "CLSTIME", "RNCTIME"][k % 3], k % 24, k % 60, if k % 2 == 0 { "+" } else { "-" }, k % 13),
        "13D" => format!("{:02}{:02}{:02}{:02}{:02}{}{:02}00", 20 + k % 29, 1 + k % 12, 1 + k % 28, k % 24, k % 60, if k % 2 == 0 { "+" } else { "-" }, k % 13),
        "19" => amount(k, variant),
        "20" | "21" | "21F" | "21R" => {
            if long { pad_to(&format!("R{k}X"), 16) } else if short { format!("R{k}") } else { format!("REF{k:07}") }
        }
        "21C" | "21D" | "21E" => {
            if long { pad_to(&format!("MANDATE{k}X"), 35) } else { format!("MANDATE-REF-{k}") }
        }
        "23" => {
            if short { format!("BASREF{k}") } else { format!("NOT{:02}REF{k}", 1 + k % 98) }
        }
        "23B" => ["CRED", "SPRI", "SSTD", "SPAY", "CRTS"][k % 5].to_string(),
        "23E" => {
            let codes: &[&str] = match mt {
                "104" | "107" => &["AUTH", "NAUT", "OTHR"],
                "101" => &["INTC", "CORT", "URGP"],
                _ => &["INTC", "CORT", "SDVA"],
            };
            let c = codes[k % codes.len()];
            if long { format!("{c}/{}", pad_to(&format!("INFO {k} "), 30)) } else { c.to_string() }
        }
        "25" => {
            if long { format!("/{}", pad_to(&format!("ACCT{k}X"), 34)) } else { format!("/ACCT{k:08}") }
        }
        "25A" => format!("/ACCOUNT{k:06}"),
        "25P" => format!("ACCT{k:08}\n{}", bic(k, long)),
        "26T" => ["SAL", "PEN", "K90"][k % 3].to_string(),
        "28" => format!("{}/{}", 1 + k % 99999, 1 + k % 99),
        "28C" => {
            if short { format!("{}", 1 + k % 99999) } else { format!("{}/{}", 1 + k % 99999, 1 + k % 99999) }
        }
        "28D" => format!("{}/{}", 1 + k % 99, 100 + k % 899),
        "30" => format!("{:02}{:02}{:02}", 20 + k % 29, 1 + k % 12, 1 + k % 28),
        "32A" | "32C" | "32D" => format!("{:02}{:02}{:02}{ccy}{}", 20 + k % 29, 1 + k % 12, 1 + k % 28, amount(k, variant)),
        "32B" | "33B" | "71F" | "71G" => format!("{ccy}{}", amount(k, variant)),
        "34F" => format!("{ccy}{}{}", ["", "D", "C"][k % 3], amount(k, variant)),
        "36" => format!("{},{:04}", 1 + k % 9, 1000 + k % 8999),
        "37H" => format!("{}{},{:02}", ["C", "D"][k % 2], 1 + k % 20, 10 + k % 89),
        "50" => lines("NAME", k, if short { 1 } else { 3 }, 35, long),
        "50A" => format!("{}1/NAME {k}\n2/STREET {k}\n3/US/CITY {k}", party(k)),
        "50C" | "51A" | "52A" | "53A" | "54A" | "55A" | "56A" | "57A" | "58A" | "59A" => {
            if tag == "50C" { bic(k, long) } else { format!("{}{}", party(k), bic(k, long)) }
        }
        // crate-documented 50F: account + [/party_id] + [name/address] + BIC (last line)
        "50F" => match variant {
            0 => format!("ACC{k:06}\n/SEC/{k}\nNAME {k}\nSTREET {k}\n{}", bic(k, false)),
            1 => format!("ACC{k:06}\n{}", bic(k, false)),
            _ => format!("ACC{k:06}\nNAME {k}\n{}", bic(k, true)),
        },
        "50G" => format!("/ACC{k:06}\n{}", bic(k, long)),
        "50H" => format!("/ACC{k:06}\n{}", lines("NAME", k, if short { 1 } else { 3 }, 35, long)),
        "50K" | "59" => format!("{}{}", party(k), lines("NAME", k, if short { 1 } else { 4 }, 35, long)),
        "50L" => {
            if long { pad_to(&format!("PARTY{k}X"), 35) } else { format!("PARTY-ID-{k}") }
        }
        "52B" | "53B" | "54B" | "55B" | "57B" => match variant {
            0 => format!("/ACC{k:06}\nLOCATION {k}"),
            1 => format!("LOCATION {k}"),
            _ => format!("/ACC{k:06}"),
        },
        "52C" | "56C" | "57C" => format!("/CLEARING{k:06}"),
        "52D" | "53D" | "54D" | "55D" | "56D" | "57D" | "58D" => format!("{}{}", party(k), lines("BANK", k, if short { 1 } else { 4 }, 35, long)),
        "59F" => match variant {
            0 => format!("/ACC{k:06}\n1/NAME {k}\n2/STREET {k}\n3/US/CITY {k}"),
            1 => format!("1/NAME {k}\n2/STREET {k}"),
            _ => format!("/ACC{k:06}\n1/NAME {k}\n2/STREET {k}\n3/US/CITY {k}\n4/MORE {k}"),
        },
        "60F" | "60M" | "62F" | "62M" | "64" | "65" => format!("{}{:02}{:02}{:02}{ccy}{}", ["C", "D"][k % 2], 20 + k % 29, 1 + k % 12, 1 + k % 28, amount(k, variant)),
        "61" => match variant {
            0 => format!("{:02}{:02}{:02}{}{}NTRFREF{k}//BANK{k}", 20 + k % 29, 1 + k % 12, 1 + k % 28, ["C", "D"][k % 2], amount(k, 0)),
            1 => format!("{:02}{:02}{:02}{:02}{:02}{}{}NCHKNONREF", 20 + k % 29, 1 + k % 12, 1 + k % 28, 1 + k % 12, 1 + k % 28, ["C", "D"][k % 2], amount(k, 1)),
            _ => format!("{:02}{:02}{:02}{}{}NMSCREF{k}//BANK{k}\nSUPPLEMENTARY DETAILS {k}", 20 + k % 29, 1 + k % 12, 1 + k % 28, ["RC", "RD"][k % 2], amount(k, 0)),
        },
        "70" => lines("REMIT", k, if short { 1 } else { 4 }, 35, long),
        "71A" => ["SHA", "OUR", "BEN"][k % 3].to_string(),
        "71B" | "75" | "76" => lines("INFO", k, if short { 1 } else { 6 }, 35, long),
        "72" => {
            if short { format!("/INS/BANK {k}") } else { format!("/ACC/INSTRUCTION {k}\n//CONTINUED {k}\n/INS/BANK {k}") }
        }
        "77A" => lines("NARR", k, if short { 1 } else { 20 }, 35, long),
        "77B" => lines("/ORDERRES/US//INFO", k, if short { 1 } else { 3 }, 35, false),
        "77T" => format!("/NARR/ENVELOPE CONTENT {k}/INVOICE {k}/"),
        "79" => lines("TEXT", k, if short { 1 } else { 35 }, 50, long),
        "86" => lines("ACCOUNT INFO", k, if short { 1 } else { 6 }, 65, long),
        "90C" | "90D" => format!("{}{ccy}{}", 1 + k % 99999, amount(k, variant)),
        other => panic!("no exemplar for tag {other}"),
    }
}
