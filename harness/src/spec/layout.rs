//! Independent layout specification of the 30 supported types (DESIGN.md Appendix D), as data:
//! written from the SR2025 message reference guides, restricted per position to the options the
//! crate's own model type documents (intersection), NOT from parse_from_block4 / to_mt_string.
//! Provides: the layout tree, an acceptor for tag sequences (used to decide whether an occurrence
//! is mandatory), and a generator of well-formed messages (G-valid).

use crate::rng::Rng;
use crate::tok::Token;

#[derive(Clone, Debug)]
pub struct FieldSpec {
    /// two-digit field number
    pub num: &'static str,
    /// allowed option letters; "" = no letter
    pub opts: Vec<&'static str>,
    pub mandatory: bool,
    /// maximum occurrences (1 = not repeatable)
    pub max: usize,
}

#[derive(Clone, Debug)]
pub enum Node {
    Field(FieldSpec),
    /// exactly one of the alternatives (each a single field), e.g. MT935 (23 | 25)
    Alt(Vec<FieldSpec>),
    /// repeating / optional sequence; `json_array`: occurrences are elements of the "#" array,
    /// `json_object`: single optional sequence stored as the "#" object, neither: inline
    Seq {
        items: Vec<Node>,
        min: usize,
        max: usize,
        json_array: bool,
        json_object: bool,
    },
}

#[derive(Clone, Debug)]
pub struct Layout {
    pub mt: &'static str,
    pub nodes: Vec<Node>,
}

pub const UNBOUNDED: usize = 1_000_000;

/// Layout DSL, one line per type. `NN[opts] M|O [*[k]]`, `(a|b) M`, `{ ... }min..max[a|o]`
/// (`a` = JSON array under "#", `o` = JSON object under "#", none = inline), `n` = unbounded.
const DSL: &[(&str, &str)] = &[
    ("101", "20 M; 21R O; 28D M; 50[C,L] O; 50[F,G,H] O; 52[A,C] O; 51A O; 30 M; 25 O; { 21 M; 21F O; 23E O*; 32B M; 50[C,L] O; 50[F,G,H] O; 52[A,C] O; 56[A,C,D] O; 57[A,C,D] O; 59[-,A,F] M; 70 O; 77B O; 33B O; 71A M; 25A O; 36 O }1..n a"),
    ("103", "20 M; 13C O*; 23B M; 23E O*; 26T O; 32A M; 33B O; 36 O; 50[A,F,K] M; 51A O; 52[A,D] O; 53[A,B,D] O; 54[A,B,D] O; 55[A,B,D] O; 56[A,C,D] O; 57[A,B,C,D] O; 59[-,A,F] M; 70 O; 71A M; 71F O*; 71G O; 72 O; 77B O; 77T O"),
    ("104", "20 M; 21R O; 23E O; 21E O; 30 M; 51A O; 50[C,L] O; 50[A,K] O; 52[A,C,D] O; 26T O; 77B O; 71A O; 72 O; { 21 M; 23E O; 21C O; 21D O; 21E O; 32B M; 50[C,L] O; 50[A,K] O; 52[A,C,D] O; 57[A,C,D] O; 59[-,A] M; 70 O; 26T O; 77B O; 33B O; 71A O; 71F O; 71G O; 36 O }1..n a; { 32B M; 19 O; 71F O; 71G O; 53[A,B] O }0..1"),
    ("107", "20 M; 23E O; 21E O; 30 M; 51A O; 50[C,L] O; 50[A,K] O; 52[A,C,D] O; 26T O; 77B O; 71A O; 72 O; { 21 M; 23E O; 21C O; 21D O; 21E O; 32B M; 50[C,L] O; 50[A,K] O; 52[A,C,D] O; 57[A,C,D] O; 59[-,A] M; 70 O; 26T O; 77B O; 33B O; 71A O; 71F O; 71G O; 36 O }1..n a; 32B M; 19 O; 71F O; 71G O; 53[A,B] O"),
    ("110", "20 M; 53[A,B,D] O; 54[A,B,D] O; 72 O; { 21 M; 30 M; 32[A,B] M; 50[A,F,K] O; 52[A,B,D] O; 59[-,F] M }1..10 a"),
    ("111", "20 M; 21 M; 30 M; 32[A,B] M; 52[A,D] O; 59 O; 75 O"),
    ("112", "20 M; 21 M; 30 M; 32[A,B] M; 52[A,D] O; 59 O; 76 M"),
    ("190", "20 M; 21 M; 25 M; 32[C,D] M; 52[A,D] O; 71B M; 72 O"),
    ("191", "20 M; 21 M; 32B M; 52[A,D] O; 57[A,B,D] O; 71B M; 72 O"),
    ("192", "20 M; 21 M; 11S M; 79 M"),
    ("196", "20 M; 21 M; 76 M; 77A O; 79 O"),
    ("199", "20 M; 21 O; 79 M"),
    ("200", "20 M; 32A M; 53B O; 56[A,D] O; 57[A,B,D] M; 72 O"),
    ("202", "20 M; 21 M; 13C O*; 32A M; 52[A,D] O; 53[A,B,D] O; 54[A,B,D] O; 56[A,D] O; 57[A,B,D] O; 58[A,D] M; 72 O; { 50[A,F,K] M; 52[A,D] O; 56[A,C,D] O; 57[A,B,C,D] O; 59[-,A,F] M; 70 O; 72 O; 33B O }0..1 o"),
    ("204", "20 M; 19 M; 30 M; 57[A,B,D] O; 58[A,D] O; 72 O; { 20 M; 21 O; 32B M; 53[A,B,D] O; 72 O }1..10 a"),
    ("205", "20 M; 21 M; 13C O*; 32A M; 52[A,D] O; 53[A,B,D] O; 56[A,D] O; 57[A,B,D] O; 58[A,D] M; 72 O"),
    ("210", "20 M; 25 O; 30 M; { 21 M; 32B M; 50[-,C,F] O; 52[A,D] O; 56[A,D] O }1..10 a"),
    ("290", "20 M; 21 M; 25 M; 32[C,D] M; 52[A,D] O; 71B M; 72 O"),
    ("291", "20 M; 21 M; 32B M; 52[A,D] O; 57[A,B,D] O; 71B M; 72 O"),
    ("292", "20 M; 21 M; 11S M; 79 M"),
    ("296", "20 M; 21 M; 76 M; 77A O; 11[R,S] O; 79 O"),
    ("299", "20 M; 21 O; 79 M"),
    ("900", "20 M; 21 M; 25[-,P] M; 13D O; 32A M; 52[A,D] O; 72 O"),
    ("910", "20 M; 21 M; 25[-,P] M; 13D O; 32A M; 50[A,F,K] O; 52[A,D] O; 56[A,D] O; 72 O"),
    ("920", "20 M; { 12 M; 25 M; 34F O; 34F O }1..100 a"),
    ("935", "20 M; { (23|25) M; 30 M; 37H M* }1..10 a; 72 O"),
    ("940", "20 M; 21 O; 25 M; 28C M; 60F M; { 61 M; 86 O }0..n a; 62F M; 64 O; 65 O*"),
    ("941", "20 M; 21 O; 25[-,P] M; 28 M; 13D O; 60F O; 90D O; 90C O; 62F M; 64 O; 65 O*; 86 O"),
    ("942", "20 M; 21 O; 25[-,P] M; 28C M; 34F M; 34F O; 13D M; { 61 M; 86 O }0..n a; 90D O; 90C O; 86 O"),
    ("950", "20 M; 25 M; 28C M; 60[F,M] M; 61 O*; 62[F,M] M; 64 O"),
];

fn leak(s: String) -> &'static str {
    Box::leak(s.into_boxed_str())
}

fn parse_field_spec(s: &str) -> FieldSpec {
    // "50[A,F,K] M", "23E O*", "20 M", "37H M*"
    let (head, rest) = s.trim().split_once(' ').expect("field spec");
    let rest = rest.trim();
    let mandatory = rest.starts_with('M');
    let max = match rest.find('*') {
        Some(i) => rest[i + 1..].trim().parse::<usize>().unwrap_or(UNBOUNDED),
        None => 1,
    };
    let (num, opts): (String, Vec<&'static str>) = if let Some(b) = head.find('[') {
        let num = head[..b].to_string();
        let opts = head[b + 1..head.len() - 1]
            .split(',')
            .map(|o| if o.trim() == "-" { "" } else { leak(o.trim().to_string()) })
            .collect();
        (num, opts)
    } else if head.len() == 3 {
        (head[..2].to_string(), vec![leak(head[2..].to_string())])
    } else {
        (head.to_string(), vec![""])
    };
    FieldSpec { num: leak(num), opts, mandatory, max }
}

fn parse_nodes(src: &str) -> Vec<Node> {
    let mut nodes = Vec::new();
    let mut i = 0;
    let b = src.as_bytes();
    let mut cur = String::new();
    let flush = |cur: &mut String, nodes: &mut Vec<Node>| {
        let t = cur.trim();
        if !t.is_empty() {
            if t.starts_with('(') {
                let close = t.find(')').unwrap();
                let mand = t[close + 1..].trim();
                let alts = t[1..close].split('|').map(|a| parse_field_spec(&format!("{} {}", a.trim(), mand))).collect();
                nodes.push(Node::Alt(alts));
            } else {
                nodes.push(Node::Field(parse_field_spec(t)));
            }
        }
        cur.clear();
    };
    while i < b.len() {
        match b[i] {
            b';' => {
                flush(&mut cur, &mut nodes);
                i += 1;
            }
            b'{' => {
                flush(&mut cur, &mut nodes);
                let mut depth = 0;
                let mut j = i;
                while j < b.len() {
                    if b[j] == b'{' {
                        depth += 1;
                    }
                    if b[j] == b'}' {
                        depth -= 1;
                        if depth == 0 {
                            break;
                        }
                    }
                    j += 1;
                }
                let inner = &src[i + 1..j];
                // bounds: min..max [a|o]
                let mut k = j + 1;
                while k < b.len() && b[k] != b';' {
                    k += 1;
                }
                let tail = src[j + 1..k].trim();
                let (bounds, flag) = match tail.split_once(' ') {
                    Some((x, y)) => (x, y.trim()),
                    None => (tail, ""),
                };
                let (mn, mx) = bounds.split_once("..").expect("bounds");
                let min = mn.parse::<usize>().unwrap();
                let max = if mx == "n" { UNBOUNDED } else { mx.parse::<usize>().unwrap() };
                nodes.push(Node::Seq {
                    items: parse_nodes(inner),
                    min,
                    max,
                    json_array: flag == "a",
                    json_object: flag == "o",
                });
                i = k;
            }
            c => {
                cur.push(c as char);
                i += 1;
            }
        }
    }
    flush(&mut cur, &mut nodes);
    nodes
}

pub fn layouts() -> Vec<Layout> {
    DSL.iter().map(|(mt, s)| Layout { mt, nodes: parse_nodes(s) }).collect()
}

pub fn layout(mt: &str) -> Layout {
    let (m, s) = DSL.iter().find(|(m, _)| *m == mt).expect("layout");
    Layout { mt: m, nodes: parse_nodes(s) }
}

// ---------------------------------------------------------------------------------------------
// Acceptor: does a tag sequence conform to the layout?

fn field_matches(f: &FieldSpec, tag: &str) -> bool {
    tag.len() >= 2 && &tag[..2] == f.num && f.opts.iter().any(|o| *o == &tag[2..])
}

/// all positions reachable after matching `nodes` starting at `pos`
fn match_nodes(nodes: &[Node], tags: &[&str], pos: usize) -> Vec<usize> {
    let mut cur: Vec<usize> = vec![pos];
    for n in nodes {
        let mut next: Vec<usize> = Vec::new();
        for &p in &cur {
            match n {
                Node::Field(f) => {
                    if !f.mandatory {
                        next.push(p);
                    }
                    let mut q = p;
                    let mut count = 0;
                    while q < tags.len() && field_matches(f, tags[q]) && count < f.max {
                        q += 1;
                        count += 1;
                        next.push(q);
                    }
                }
                Node::Alt(alts) => {
                    let mand = alts.iter().any(|a| a.mandatory);
                    if !mand {
                        next.push(p);
                    }
                    if p < tags.len() && alts.iter().any(|a| field_matches(a, tags[p])) {
                        next.push(p + 1);
                    }
                }
                Node::Seq { items, min, max, .. } => {
                    let mut frontier = vec![p];
                    let mut reps = 0usize;
                    if *min == 0 {
                        next.push(p);
                    }
                    while !frontier.is_empty() && reps < *max && reps < tags.len() + 1 {
                        let mut nf = Vec::new();
                        for &fp in &frontier {
                            for e in match_nodes(items, tags, fp) {
                                if e > fp {
                                    nf.push(e);
                                }
                            }
                        }
                        nf.sort();
                        nf.dedup();
                        reps += 1;
                        if reps >= *min {
                            next.extend(nf.iter().copied());
                        }
                        frontier = nf;
                    }
                }
            }
        }
        next.sort();
        next.dedup();
        cur = next;
        if cur.is_empty() {
            break;
        }
    }
    cur
}

pub fn accepts(l: &Layout, tags: &[&str]) -> bool {
    match_nodes(&l.nodes, tags, 0).contains(&tags.len())
}

// ---------------------------------------------------------------------------------------------
// Generator

#[derive(Clone, Debug)]
pub struct GenField {
    pub tag: String,
    pub content: String,
    /// index path of enclosing array-sequence occurrences (empty = top level); `in_object` = inside
    /// the "#" object sequence
    pub seq_index: Option<usize>,
    pub in_object: bool,
    /// k-th occurrence of this same tag number within its enclosing sequence occurrence
    pub occurrence: usize,
}

impl GenField {
    pub fn token(&self) -> Token {
        Token { tag: self.tag.clone(), content: self.content.clone() }
    }
}

pub struct GenOptions {
    /// probability (per 1000) of including an optional field
    pub optional_per_mille: u64,
    pub max_repeat: usize,
    pub max_seq: usize,
    /// force: include every optional (maximal message)
    pub maximal: bool,
    /// force: include no optional (minimal message)
    pub minimal: bool,
}

pub struct Gen<'a> {
    pub r: &'a mut Rng,
    pub counter: usize,
    pub mt: &'static str,
    pub opt: GenOptions,
    /// if set: (field number, option letter) that must be chosen wherever that number occurs
    pub force_option: Option<(String, String)>,
    /// if set: this optional field number is included (others by chance)
    pub force_include: Option<String>,
}

impl<'a> Gen<'a> {
    fn include(&mut self, num: &str) -> bool {
        if self.opt.maximal {
            return true;
        }
        if self.force_include.as_deref() == Some(num) {
            return true;
        }
        if self.opt.minimal {
            return false;
        }
        self.r.chance(self.opt.optional_per_mille, 1000)
    }

    fn emit_field(&mut self, f: &FieldSpec, out: &mut Vec<GenField>, seq_index: Option<usize>, in_object: bool, counts: &mut std::collections::HashMap<String, usize>) {
        let n = if f.mandatory {
            if f.max > 1 { 1 + self.r.below(self.opt.max_repeat.min(f.max)) } else { 1 }
        } else if self.include(f.num) {
            if f.max > 1 {
                if self.opt.maximal { self.opt.max_repeat.min(f.max).max(2) } else { 1 + self.r.below(self.opt.max_repeat.min(f.max)) }
            } else {
                1
            }
        } else {
            0
        };
        for _ in 0..n {
            let letter = match &self.force_option {
                Some((num, l)) if num == f.num && f.opts.iter().any(|o| o == l) => l.clone(),
                _ => self.r.pick(&f.opts).to_string(),
            };
            let tag = format!("{}{}", f.num, letter);
            self.counter += 1;
            let variant = self.r.below(3);
            let content = super::exemplar::content(self.mt, &tag, self.counter, variant);
            let c = counts.entry(tag.clone()).or_insert(0);
            out.push(GenField { tag, content, seq_index, in_object, occurrence: *c });
            *c += 1;
        }
    }

    fn emit_nodes(&mut self, nodes: &[Node], out: &mut Vec<GenField>, seq_index: Option<usize>, in_object: bool) {
        let mut counts = std::collections::HashMap::new();
        for n in nodes {
            match n {
                Node::Field(f) => self.emit_field(f, out, seq_index, in_object, &mut counts),
                Node::Alt(alts) => {
                    let f = self.r.pick(alts).clone();
                    self.emit_field(&f, out, seq_index, in_object, &mut counts);
                }
                Node::Seq { items, min, max, json_array, json_object } => {
                    let hi = (*max).min(self.opt.max_seq.max(*min));
                    let cnt = if self.opt.maximal {
                        hi.min(3).max(*min)
                    } else if self.opt.minimal {
                        *min
                    } else {
                        *min + self.r.below(hi - *min + 1)
                    };
                    for k in 0..cnt {
                        if *json_array {
                            self.emit_nodes(items, out, Some(k), false);
                        } else if *json_object {
                            self.emit_nodes(items, out, None, true);
                        } else {
                            // inline sequence: same JSON level; counts continue
                            for it in items {
                                match it {
                                    Node::Field(f) => self.emit_field(f, out, seq_index, in_object, &mut counts),
                                    Node::Alt(alts) => {
                                        let f = self.r.pick(alts).clone();
                                        self.emit_field(&f, out, seq_index, in_object, &mut counts);
                                    }
                                    Node::Seq { .. } => {}
                                }
                            }
                        }
                    }
                }
            }
        }
    }

    pub fn message(&mut self, l: &Layout) -> Vec<GenField> {
        let mut out = Vec::new();
        self.emit_nodes(&l.nodes, &mut out, None, false);
        out
    }
}

/// every (field number, option letter) pair of a layout, for option-coverage strata
pub fn option_pairs(l: &Layout) -> Vec<(String, String)> {
    fn rec(nodes: &[Node], out: &mut Vec<(String, String)>) {
        for n in nodes {
            match n {
                Node::Field(f) => {
                    for o in &f.opts {
                        out.push((f.num.to_string(), o.to_string()));
                    }
                }
                Node::Alt(a) => {
                    for f in a {
                        for o in &f.opts {
                            out.push((f.num.to_string(), o.to_string()));
                        }
                    }
                }
                Node::Seq { items, .. } => rec(items, out),
            }
        }
    }
    let mut out = Vec::new();
    rec(&l.nodes, &mut out);
    out.sort();
    out.dedup();
    out
}

/// every optional field number of a layout
pub fn optional_numbers(l: &Layout) -> Vec<String> {
    fn rec(nodes: &[Node], out: &mut Vec<String>) {
        for n in nodes {
            match n {
                Node::Field(f) => {
                    if !f.mandatory {
                        out.push(f.num.to_string());
                    }
                }
                Node::Alt(_) => {}
                Node::Seq { items, .. } => rec(items, out),
            }
        }
    }
    let mut out = Vec::new();
    rec(&l.nodes, &mut out);
    out.sort();
    out.dedup();
    out
}
