//! smtverif — runtime monitors for swift-mt-message (see /verif/DESIGN.md)

mod corpus;
mod gen_;
mod jsonu;
mod monitor;
mod mutate;
mod plug;
mod props;
mod registry;
mod rng;
mod spec;
mod surgery;
mod tok;

use monitor::{Config, Tier};

fn usage() -> ! {
    eprintln!("usage: smtverif <Cxx> <quick|thorough> [--seed N] [--threads N] | <Cxx> --replay <file> | gen-corpus <n> <out>");
    std::process::exit(2)
}

fn main() {
    let args: Vec<String> = std::env::args().collect();
    if args.len() < 2 {
        usage();
    }
    let verif_dir = std::env::var("VERIF_DIR").unwrap_or_else(|_| "/verif".to_string());
    let repo_dir = std::env::var("SMT_REPO").unwrap_or_else(|_| "/repo".to_string());
    // scenario files are looked up relative to the repository
    if std::env::var("SWIFT_SCENARIO_PATH").is_err() {
        unsafe { std::env::set_var("SWIFT_SCENARIO_PATH", format!("{repo_dir}/test_scenarios")) };
    }
    if args[1] == "gen-corpus" {
        let n: usize = args.get(2).and_then(|s| s.parse().ok()).unwrap_or(3);
        let out = args.get(3).cloned().unwrap_or(format!("{verif_dir}/corpus/corpus.jsonl"));
        let k = corpus::generate(&repo_dir, n, &out).expect("write corpus");
        println!("wrote {k} messages to {out}");
        return;
    }
    if args[1] == "probe" {
        probe(&args[2..]);
        return;
    }
    let prop = args[1].clone();
    let mut tier = Tier::Quick;
    let mut seed: u64 = std::env::var("VERIF_SEED").ok().and_then(|s| s.parse().ok()).unwrap_or(0);
    let mut threads: usize = std::env::var("VERIF_THREADS")
        .ok()
        .and_then(|s| s.parse().ok())
        .unwrap_or_else(|| std::thread::available_parallelism().map(|n| n.get()).unwrap_or(8));
    let mut replay: Option<String> = None;
    let mut i = 2;
    while i < args.len() {
        match args[i].as_str() {
            "quick" => tier = Tier::Quick,
            "thorough" => tier = Tier::Thorough,
            "--seed" => {
                i += 1;
                seed = args.get(i).and_then(|s| s.parse().ok()).unwrap_or_else(|| usage());
            }
            "--threads" => {
                i += 1;
                threads = args.get(i).and_then(|s| s.parse().ok()).unwrap_or_else(|| usage());
            }
            "--replay" => {
                i += 1;
                replay = Some(args.get(i).cloned().unwrap_or_else(|| usage()));
            }
            _ => usage(),
        }
        i += 1;
    }
    let cfg = Config {
        prop: prop.clone(),
        tier,
        seed,
        threads,
        verif_dir,
        repo_dir,
    };
    monitor::install_panic_hook();
    let code = if let Some(path) = replay {
        let text = std::fs::read_to_string(&path).unwrap_or_else(|e| {
            eprintln!("cannot read {path}: {e}");
            std::process::exit(2)
        });
        let v: serde_json::Value = serde_json::from_str(&text).expect("replay file is JSON");
        let case = v.get("case").cloned().unwrap_or(v);
        let started = std::time::Instant::now();
        let Some((_, replay_fn)) = props::dispatch(&prop) else { usage() };
        // replay under the same hang watchdog as exploration
        let case_for_dog = case.clone();
        monitor::set_hang_describer(Box::new(move |_| case_for_dog.clone()));
        let local = monitor::par_for(&cfg, 1, |_, l| {
            let x = replay_fn(&cfg, &case);
            l.merge(x);
        });
        let mut cfg2 = cfg.clone();
        cfg2.prop = format!("{prop}");
        monitor::finish_replay(&cfg2, started, local)
    } else {
        let Some((run_fn, _)) = props::dispatch(&prop) else { usage() };
        run_fn(&cfg)
    };
    std::process::exit(code);
}

/// Manual triage aid: `probe field <Type> <variant|-> <input>` / `probe b4 <mt> <text>` / `probe full <text>`
/// (input may use \n escapes)
fn probe(a: &[String]) {
    let unesc = |s: &str| s.replace("\\r", "\r").replace("\\n", "\n");
    match a.first().map(|s| s.as_str()) {
        Some("field") => {
            let ops = registry::field(&a[1]).expect("field type");
            let input = unesc(&a[3]);
            let r = if a[2] == "-" { (ops.parse)(&input) } else { (ops.parse_variant)(&input, Some(a[2].as_str()), None) };
            match r {
                Ok(v) => {
                    println!("OK  dbg={}", v.dbg());
                    println!("    swift={:?}", v.to_swift());
                    println!("    json={}", v.json().map(|j| j.to_string()).unwrap_or_else(|e| e));
                    println!("    variant_tag={:?}", v.variant_tag());
                }
                Err(e) => println!("ERR {e}"),
            }
        }
        Some("b4") => {
            let ops = registry::msg(&a[1]).expect("type");
            let input = unesc(&a[2]);
            swift_mt_message::verif_hooks::take();
            match (ops.parse_b4)(&input) {
                Ok(v) => {
                    println!("OK  mt={:?}", v.to_mt());
                    println!("    json={}", v.json().map(|j| j.to_string()).unwrap_or_else(|e| e));
                    println!("    validate={:?}", v.validate(false).iter().map(|e| e.error_code().to_string()).collect::<Vec<_>>());
                }
                Err(e) => println!("ERR {e}"),
            }
            for ev in swift_mt_message::verif_hooks::take() {
                println!("    hook {ev:?}");
            }
        }
        Some("classify") => {
            // probe classify <FieldType> <content>: the reference acceptor's verdict and the library's
            let specs = spec::fieldfmt::specs();
            let sp = specs.iter().find(|x| x.ty == a[1]).expect("spec");
            let input = unesc(&a[2]);
            println!("reference: {:?}", spec::fieldfmt::classify(sp, &input));
            let ops = registry::field(&a[1]).expect("field type");
            println!("library:   {}", match (ops.parse)(&input) { Ok(v) => format!("accepts -> {:?}", v.to_swift()), Err(e) => format!("rejects: {e}") });
        }
        Some("candidates") => {
            let specs = spec::fieldfmt::specs();
            let sp = specs.iter().find(|x| x.ty == a[1]).expect("spec");
            let mut r = rng::Rng::new(0, "probe", 0);
            for c in spec::fieldfmt::candidates(sp, 0, &mut r, 0) {
                println!("{:32} {:24} {:?}  => {:?}", c.class, c.component, c.content, spec::fieldfmt::classify(sp, &c.content));
            }
        }
        Some("full") => {
            let input = unesc(&a[1]);
            match swift_mt_message::SwiftParser::parse_auto(&input) {
                Ok(v) => println!("OK  {}", serde_json::to_string(&v).unwrap()),
                Err(e) => println!("ERR {e}"),
            }
        }
        // `probe publish <full text>`: direct serialisation next to the publish plugin's text of the same message's JSON
        Some("publish") => {
            let input = unesc(&a[1]);
            match swift_mt_message::SwiftParser::parse_auto(&input) {
                Ok(v) => {
                    let j = serde_json::to_value(&v).unwrap();
                    println!("JSON    {j}");
                    println!("PUBLISH {:?}", plug::publish_json(&j));
                }
                Err(e) => println!("ERR {e}"),
            }
        }
        _ => usage(),
    }
}
