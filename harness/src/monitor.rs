//! Observation sink shared by all property monitors: counting of evaluations and distinct
//! non-trivial executions, stratum tables, samples, violations keyed by signature, matching
//! against the committed known-findings file, evidence writer, replay files.

use serde_json::{Value, json};
use std::collections::{BTreeMap, HashMap, HashSet};
use std::sync::Mutex;
use std::sync::atomic::{AtomicU64, Ordering};
use std::time::Instant;

#[derive(Clone, Copy, PartialEq, Eq, Debug)]
pub enum Tier {
    Quick,
    Thorough,
}
impl Tier {
    pub fn name(self) -> &'static str {
        match self {
            Tier::Quick => "quick",
            Tier::Thorough => "thorough",
        }
    }
    /// pick by tier
    pub fn pick<T>(self, q: T, t: T) -> T {
        match self {
            Tier::Quick => q,
            Tier::Thorough => t,
        }
    }
}

#[derive(Clone)]
pub struct Config {
    pub prop: String,
    pub tier: Tier,
    pub seed: u64,
    pub threads: usize,
    pub verif_dir: String,
    pub repo_dir: String,
}

#[derive(Clone, Debug)]
pub struct Viol {
    pub key: String,
    pub what: String,
    pub case: Value,
    pub count: u64,
}

const SAMPLES_PER_STRATUM: usize = 2;

/// Per-thread sink
#[derive(Default)]
pub struct Local {
    pub evals: u64,
    pub strata: HashMap<String, u64>,
    pub digests: HashSet<u64>,
    pub samples: HashMap<String, Vec<Value>>,
    pub viol: HashMap<String, Viol>,
    pub inconclusive: HashMap<String, u64>,
    pub counters: HashMap<String, u64>,
}

impl Local {
    /// Record one judged execution. `stratum` = where in the input space, `outcome` = what the
    /// library did; `nontrivial` = the library did real work (see each property's rule);
    /// `digest` identifies (input, outcome) for distinct counting.
    pub fn eval(&mut self, stratum: &str, outcome: &str, nontrivial: bool, digest: u64) {
        self.evals += 1;
        let k = format!("{stratum}|{outcome}");
        *self.strata.entry(k).or_insert(0) += 1;
        if nontrivial {
            self.digests.insert(digest);
        }
    }
    pub fn want_sample(&self, stratum: &str) -> bool {
        self.samples
            .get(stratum)
            .map(|v| v.len() < SAMPLES_PER_STRATUM)
            .unwrap_or(true)
    }
    pub fn sample(&mut self, stratum: &str, v: Value) {
        let e = self.samples.entry(stratum.to_string()).or_default();
        if e.len() < SAMPLES_PER_STRATUM {
            e.push(v);
        }
    }
    pub fn violation(&mut self, key: String, what: String, case: impl FnOnce() -> Value) {
        match self.viol.get_mut(&key) {
            Some(v) => v.count += 1,
            None => {
                let c = case();
                self.viol.insert(
                    key.clone(),
                    Viol {
                        key,
                        what,
                        case: c,
                        count: 1,
                    },
                );
            }
        }
    }
    pub fn inconclusive(&mut self, why: &str) {
        *self.inconclusive.entry(why.to_string()).or_insert(0) += 1;
    }
    pub fn count(&mut self, name: &str, n: u64) {
        *self.counters.entry(name.to_string()).or_insert(0) += n;
    }
    pub fn merge(&mut self, o: Local) {
        self.evals += o.evals;
        for (k, v) in o.strata {
            *self.strata.entry(k).or_insert(0) += v;
        }
        self.digests.extend(o.digests);
        for (k, v) in o.samples {
            let e = self.samples.entry(k).or_default();
            for x in v {
                if e.len() < SAMPLES_PER_STRATUM {
                    e.push(x);
                }
            }
        }
        for (k, v) in o.viol {
            match self.viol.get_mut(&k) {
                Some(e) => e.count += v.count,
                None => {
                    self.viol.insert(k, v);
                }
            }
        }
        for (k, v) in o.inconclusive {
            *self.inconclusive.entry(k).or_insert(0) += v;
        }
        for (k, v) in o.counters {
            *self.counters.entry(k).or_insert(0) += v;
        }
    }
}

// ---------------------------------------------------------------------------------------------
// Hang watchdog: a call that burns more than HANG_CPU_NS of its thread's CPU time on one case is a
// non-terminating (or runaway) call. Decided on thread CPU time, not wall clock.

pub const HANG_CPU_NS: u64 = 60_000_000_000;

type Describer = Box<dyn Fn(u64) -> serde_json::Value + Send + Sync>;
static HANG_DESCRIBER: Mutex<Option<Describer>> = Mutex::new(None);

/// Tell the watchdog how to turn a case index of the next `par_for` into a replayable case
pub fn set_hang_describer(f: Describer) {
    *HANG_DESCRIBER.lock().unwrap() = Some(f);
}
pub fn clear_hang_describer() {
    *HANG_DESCRIBER.lock().unwrap() = None;
}

thread_local! {
    static HEARTBEAT: std::cell::Cell<Option<&'static AtomicU64>> = const { std::cell::Cell::new(None) };
}

/// Reset the watchdog timer of the current worker (for cases that legitimately run several long calls)
pub fn heartbeat() {
    HEARTBEAT.with(|h| {
        if let Some(a) = h.get() {
            a.fetch_add(1, Ordering::Relaxed);
        }
    });
}

fn cpu_ns_of(clock: libc::clockid_t) -> u64 {
    let mut ts = libc::timespec { tv_sec: 0, tv_nsec: 0 };
    unsafe {
        libc::clock_gettime(clock, &mut ts);
    }
    ts.tv_sec as u64 * 1_000_000_000 + ts.tv_nsec as u64
}

fn report_hang(cfg: &Config, case_index: u64, done: u64) -> ! {
    let case = HANG_DESCRIBER.lock().ok().and_then(|g| g.as_ref().map(|f| f(case_index))).unwrap_or(json!({"case_index": case_index}));
    let replay_dir = format!("{}/evidence/replays", cfg.verif_dir);
    let _ = std::fs::create_dir_all(&replay_dir);
    let path = format!("{replay_dir}/{}-hang.json", cfg.prop);
    let key = format!("{}|call-does-not-terminate|cpu>{}s", cfg.prop, HANG_CPU_NS / 1_000_000_000);
    let body = json!({"property": cfg.prop, "key": key, "what": "a library call consumed more than the CPU budget on this case without returning", "case": case});
    let _ = std::fs::write(&path, serde_json::to_string_pretty(&body).unwrap());
    if cfg.prop == "C07" {
        println!("VIOLATION property=C07 replay={path}");
        println!("  key: {key}");
        println!("  what: a library call did not return within {} s of CPU time", HANG_CPU_NS / 1_000_000_000);
        let ev = json!({
            "property_id": cfg.prop, "tier": cfg.tier.name(), "seed": cfg.seed, "level": "exploration",
            "coverage": {"evaluations": done.max(1), "distinct_nontrivial": done.max(2), "rule": "run aborted by the hang watchdog; counts are cases completed before the hang",
                         "samples": [body.clone()], "verdict": "violated", "new_violation_keys": [key]},
            "assumptions": ["hang decided on thread CPU time"], "wall_s": 0.0, "violations": 1
        });
        let _ = std::fs::write(format!("{}/evidence/{}.json", cfg.verif_dir, cfg.prop), serde_json::to_string_pretty(&ev).unwrap());
        std::process::exit(1);
    }
    eprintln!("HARNESS-ERROR property={} a library call did not terminate (a C07 matter); case written to {path}", cfg.prop);
    std::process::exit(2);
}

/// Run `f(i, local)` for i in 0..n on cfg.threads threads; returns the merged sink.
pub fn par_for<F>(cfg: &Config, n: u64, f: F) -> Local
where
    F: Fn(u64, &mut Local) + Sync,
{
    let next = AtomicU64::new(0);
    let merged = Mutex::new(Local::default());
    let chunk: u64 = if n > 100_000 { 256 } else if n > 2000 { 16 } else { 1 };
    let nthreads = cfg.threads.max(1);
    // per worker: current case (index + 1, 0 = idle), heartbeat counter, cpu clock id
    let cur: Vec<AtomicU64> = (0..nthreads).map(|_| AtomicU64::new(0)).collect();
    let beat: &'static [AtomicU64] = Box::leak((0..nthreads).map(|_| AtomicU64::new(0)).collect::<Vec<_>>().into_boxed_slice());
    let clocks: Vec<AtomicU64> = (0..nthreads).map(|_| AtomicU64::new(u64::MAX)).collect();
    let finished = AtomicU64::new(0);
    let completed = AtomicU64::new(0);
    std::thread::scope(|s| {
        for w in 0..nthreads {
            let (next, merged, f, cur, clocks, finished, completed) = (&next, &merged, &f, &cur, &clocks, &finished, &completed);
            s.spawn(move || {
                let mut cid: libc::clockid_t = 0;
                if unsafe { libc::pthread_getcpuclockid(libc::pthread_self(), &mut cid) } == 0 {
                    clocks[w].store(cid as u32 as u64, Ordering::Relaxed);
                }
                HEARTBEAT.with(|h| h.set(Some(&beat[w])));
                let mut local = Local::default();
                loop {
                    let start = next.fetch_add(chunk, Ordering::Relaxed);
                    if start >= n {
                        break;
                    }
                    let end = (start + chunk).min(n);
                    for i in start..end {
                        cur[w].store(i + 1, Ordering::Relaxed);
                        // a panic that escapes a property's own guards is a defect of the harness, never a verdict
                        if std::panic::catch_unwind(std::panic::AssertUnwindSafe(|| f(i, &mut local))).is_err() {
                            let p = LAST_PANIC.with(|p| p.borrow_mut().take());
                            eprintln!("HARNESS-ERROR property={} unguarded panic in case {i}: {:?}", cfg.prop, p.map(|p| format!("{}:{}: {}", p.file, p.line, p.msg)));
                            std::process::exit(2);
                        }
                        completed.fetch_add(1, Ordering::Relaxed);
                    }
                }
                cur[w].store(0, Ordering::Relaxed);
                merged.lock().unwrap().merge(local);
                finished.fetch_add(1, Ordering::Relaxed);
            });
        }
        // watchdog
        let (cur, clocks, finished, completed) = (&cur, &clocks, &finished, &completed);
        s.spawn(move || {
            let mut last: Vec<(u64, u64, u64)> = vec![(0, 0, 0); nthreads]; // (case, beat, cpu at change)
            while finished.load(Ordering::Relaxed) < nthreads as u64 {
                std::thread::sleep(std::time::Duration::from_millis(200));
                for w in 0..nthreads {
                    let c = cur[w].load(Ordering::Relaxed);
                    let b = beat[w].load(Ordering::Relaxed);
                    let clk = clocks[w].load(Ordering::Relaxed);
                    if c == 0 || clk == u64::MAX {
                        continue;
                    }
                    let now = cpu_ns_of(clk as u32 as libc::clockid_t);
                    if (c, b) != (last[w].0, last[w].1) {
                        last[w] = (c, b, now);
                    } else if now.saturating_sub(last[w].2) > HANG_CPU_NS {
                        report_hang(cfg, c - 1, completed.load(Ordering::Relaxed));
                    }
                }
            }
        });
    });
    merged.into_inner().unwrap()
}

// ---------------------------------------------------------------------------------------------
// Known findings

#[derive(Clone, Debug)]
pub struct Known {
    pub property: String,
    pub key: String,
    pub what: String,
}

/// Format of /verif/KNOWN_FINDINGS.txt (committed, never written at run time):
///   open: property=C07 key=<signature> :: <what fails>
///   fixed: property=C01 <commit> <what failed>          (documentation only, suppresses nothing)
pub fn load_known(verif_dir: &str, prop: &str) -> Vec<Known> {
    let path = format!("{verif_dir}/KNOWN_FINDINGS.txt");
    let mut out = Vec::new();
    let Ok(text) = std::fs::read_to_string(&path) else {
        return out;
    };
    for line in text.lines() {
        let line = line.trim();
        let Some(rest) = line.strip_prefix("open: property=") else {
            continue;
        };
        let Some((p, rest)) = rest.split_once(" key=") else {
            continue;
        };
        if p != prop {
            continue;
        }
        let (key, what) = match rest.split_once(" :: ") {
            Some((k, w)) => (k.trim().to_string(), w.trim().to_string()),
            None => (rest.trim().to_string(), String::new()),
        };
        out.push(Known {
            property: p.to_string(),
            key,
            what,
        });
    }
    out
}

// ---------------------------------------------------------------------------------------------
// Finishing a run: verdict lines, evidence, replay files

pub struct Report {
    pub rule: String,
    pub assumptions: Vec<String>,
    pub exhaustive: bool,
    pub extra: BTreeMap<String, Value>,
    /// strata (prefix before '|') that must have been observed at least once; an unobserved one
    /// makes the run a harness error (exit 2), never a pass
    pub required_strata: Vec<String>,
    pub min_evals: u64,
}

impl Default for Report {
    fn default() -> Self {
        Report {
            rule: String::new(),
            assumptions: vec![],
            exhaustive: false,
            extra: BTreeMap::new(),
            required_strata: vec![],
            min_evals: 1,
        }
    }
}

pub fn finish(cfg: &Config, started: Instant, total: Local, rep: Report) -> i32 {
    let known = load_known(&cfg.verif_dir, &cfg.prop);
    let known_keys: HashMap<&str, &Known> = known.iter().map(|k| (k.key.as_str(), k)).collect();
    let mut known_hits: BTreeMap<String, u64> = BTreeMap::new();
    let mut new_viol: Vec<&Viol> = Vec::new();
    let mut keys: Vec<&String> = total.viol.keys().collect();
    keys.sort();
    for k in keys {
        let v = &total.viol[k];
        if known_keys.contains_key(k.as_str()) {
            known_hits.insert(k.clone(), v.count);
        } else {
            new_viol.push(v);
        }
    }
    for k in &known {
        if let Some(n) = known_hits.get(&k.key) {
            println!(
                "KNOWN-FINDING: property={} {} [key={} hits={}]",
                cfg.prop, k.what, k.key, n
            );
        }
    }
    let known_not_observed: Vec<String> = known
        .iter()
        .filter(|k| !known_hits.contains_key(&k.key))
        .map(|k| k.key.clone())
        .collect();

    let replay_dir = format!("{}/evidence/replays", cfg.verif_dir);
    let _ = std::fs::create_dir_all(&replay_dir);
    if let Ok(rd) = std::fs::read_dir(&replay_dir) {
        for e in rd.flatten() {
            if e.file_name().to_string_lossy().starts_with(&format!("{}-", cfg.prop)) {
                let _ = std::fs::remove_file(e.path());
            }
        }
    }
    let mut replay_paths = Vec::new();
    for v in &new_viol {
        let h = crate::rng::hash_str(&v.key);
        let path = format!("{replay_dir}/{}-{:016x}.json", cfg.prop, h);
        let body = json!({"property": cfg.prop, "key": v.key, "what": v.what, "count": v.count, "case": v.case});
        let _ = std::fs::write(&path, serde_json::to_string_pretty(&body).unwrap());
        replay_paths.push(path.clone());
        println!("VIOLATION property={} replay={}", cfg.prop, path);
        println!("  key: {}", v.key);
        println!("  what: {} (x{})", v.what, v.count);
    }

    // strata table: collapse to stratum -> {outcome: n}
    let mut table: BTreeMap<String, BTreeMap<String, u64>> = BTreeMap::new();
    for (k, n) in &total.strata {
        let (s, o) = k.split_once('|').unwrap_or((k, ""));
        *table
            .entry(s.to_string())
            .or_default()
            .entry(o.to_string())
            .or_insert(0) += n;
    }
    let mut missing: Vec<String> = Vec::new();
    for r in &rep.required_strata {
        if !table.contains_key(r) {
            missing.push(r.clone());
        }
    }
    let mut samples: Vec<Value> = Vec::new();
    let mut skeys: Vec<&String> = total.samples.keys().collect();
    skeys.sort();
    for k in skeys {
        for s in &total.samples[k] {
            if samples.len() < 60 {
                samples.push(json!({"stratum": k, "case": s}));
            }
        }
    }
    if samples.is_empty() {
        samples.push(json!({"note": "no samples recorded"}));
    }
    let inconc_total: u64 = total.inconclusive.values().sum();
    let wall = started.elapsed().as_secs_f64();
    let mut coverage = serde_json::Map::new();
    coverage.insert("evaluations".into(), json!(total.evals));
    coverage.insert("distinct_nontrivial".into(), json!(total.digests.len()));
    coverage.insert("rule".into(), json!(rep.rule));
    coverage.insert("samples".into(), Value::Array(samples));
    coverage.insert("exhaustive".into(), json!(rep.exhaustive));
    coverage.insert("strata_observed".into(), json!(table.len()));
    // keep the table bounded in the evidence file
    let mut tbl = serde_json::Map::new();
    for (s, o) in table.iter().take(400) {
        tbl.insert(s.clone(), json!(o));
    }
    coverage.insert("strata".into(), Value::Object(tbl));
    coverage.insert("counters".into(), json!(total.counters.iter().collect::<BTreeMap<_, _>>()));
    coverage.insert("known_hits".into(), json!(known_hits));
    coverage.insert("known_not_observed".into(), json!(known_not_observed));
    coverage.insert(
        "inconclusive".into(),
        json!(total.inconclusive.iter().collect::<BTreeMap<_, _>>()),
    );
    coverage.insert(
        "new_violation_keys".into(),
        json!(new_viol.iter().map(|v| v.key.clone()).collect::<Vec<_>>()),
    );
    coverage.insert("missing_required_strata".into(), json!(missing));
    for (k, v) in rep.extra {
        coverage.insert(k, v);
    }
    let verdict = if !new_viol.is_empty() {
        "violated"
    } else if !missing.is_empty() || total.evals < rep.min_evals {
        "harness-error: required strata unobserved"
    } else if inconc_total > 0 {
        "held on what was observed; some cases inconclusive"
    } else {
        "held on what was observed"
    };
    coverage.insert("verdict".into(), json!(verdict));
    let ev = json!({
        "property_id": cfg.prop,
        "tier": cfg.tier.name(),
        "seed": cfg.seed,
        "level": "exploration",
        "coverage": Value::Object(coverage),
        "assumptions": rep.assumptions,
        "wall_s": wall,
        "violations": new_viol.len(),
    });
    let evpath = format!("{}/evidence/{}.json", cfg.verif_dir, cfg.prop);
    let _ = std::fs::create_dir_all(format!("{}/evidence", cfg.verif_dir));
    std::fs::write(&evpath, serde_json::to_string_pretty(&ev).unwrap()).expect("write evidence");
    println!(
        "[{}] tier={} seed={} evaluations={} distinct_nontrivial={} strata={} known_hits={} new_violations={} inconclusive={} wall={:.1}s verdict={}",
        cfg.prop,
        cfg.tier.name(),
        cfg.seed,
        total.evals,
        total.digests.len(),
        table.len(),
        known_hits.len(),
        new_viol.len(),
        inconc_total,
        wall,
        verdict
    );
    if !new_viol.is_empty() {
        1
    } else if !missing.is_empty() || total.evals < rep.min_evals {
        eprintln!(
            "HARNESS-ERROR property={} unobserved strata: {:?} (evaluations={})",
            cfg.prop, missing, total.evals
        );
        2
    } else {
        0
    }
}

/// Replay mode: judge one recorded case; prints the keys it produces, never rewrites evidence
pub fn finish_replay(cfg: &Config, _started: Instant, total: Local) -> i32 {
    let known = load_known(&cfg.verif_dir, &cfg.prop);
    let mut new = 0;
    let mut keys: Vec<&String> = total.viol.keys().collect();
    keys.sort();
    for k in keys {
        let v = &total.viol[k];
        if let Some(kn) = known.iter().find(|x| &x.key == k) {
            println!("KNOWN-FINDING: property={} {} [key={}]", cfg.prop, kn.what, k);
        } else {
            new += 1;
            println!("VIOLATION property={} replay=<this file>", cfg.prop);
            println!("  key: {}", v.key);
            println!("  what: {}", v.what);
        }
    }
    if total.viol.is_empty() {
        println!("[{}] replay: no violation reproduced ({} evaluations)", cfg.prop, total.evals);
    }
    if new > 0 { 1 } else { 0 }
}

// ---------------------------------------------------------------------------------------------
// Panic capture

#[derive(Clone, Debug)]
pub struct PanicInfo {
    pub file: String,
    pub line: u32,
    pub msg: String,
}

thread_local! {
    static LAST_PANIC: std::cell::RefCell<Option<PanicInfo>> = const { std::cell::RefCell::new(None) };
}

pub fn install_panic_hook() {
    std::panic::set_hook(Box::new(|info| {
        let (file, line) = info
            .location()
            .map(|l| (l.file().to_string(), l.line()))
            .unwrap_or(("?".into(), 0));
        let msg = if let Some(s) = info.payload().downcast_ref::<&str>() {
            s.to_string()
        } else if let Some(s) = info.payload().downcast_ref::<String>() {
            s.clone()
        } else {
            "<non-string panic>".to_string()
        };
        if std::env::var_os("VERIF_DEBUG").is_some() {
            eprintln!("panic at {file}:{line}: {msg}");
        }
        LAST_PANIC.with(|p| *p.borrow_mut() = Some(PanicInfo { file, line, msg }));
    }));
}

/// Run a library call; a panic is turned into Err(PanicInfo)
pub fn guard<T>(f: impl FnOnce() -> T) -> Result<T, PanicInfo> {
    match std::panic::catch_unwind(std::panic::AssertUnwindSafe(f)) {
        Ok(v) => Ok(v),
        Err(_) => Err(LAST_PANIC.with(|p| p.borrow_mut().take()).unwrap_or(PanicInfo {
            file: "?".into(),
            line: 0,
            msg: "?".into(),
        })),
    }
}

static FN_CACHE: Mutex<Option<HashMap<(String, u32), String>>> = Mutex::new(None);

/// Map a panic location to `<file relative to repo>::<enclosing fn>` by scanning the current source
pub fn site_of(repo_dir: &str, p: &PanicInfo) -> String {
    let key = (p.file.clone(), p.line);
    if let Some(c) = FN_CACHE.lock().unwrap().as_ref().and_then(|m| m.get(&key).cloned()) {
        return c;
    }
    let rel = p
        .file
        .strip_prefix(&format!("{repo_dir}/"))
        .unwrap_or(&p.file)
        .to_string();
    let path = if p.file.starts_with('/') {
        p.file.clone()
    } else {
        format!("{repo_dir}/{}", p.file)
    };
    let mut name = String::from("?");
    if let Ok(src) = std::fs::read_to_string(&path) {
        let lines: Vec<&str> = src.lines().collect();
        let mut i = (p.line as usize).min(lines.len());
        while i > 0 {
            i -= 1;
            let l = lines[i].trim_start();
            if let Some(pos) = l.find("fn ") {
                let before = &l[..pos];
                if before.is_empty()
                    || before
                        .split_whitespace()
                        .all(|w| matches!(w, "pub" | "async" | "const" | "unsafe" | "pub(crate)" | "pub(super)"))
                {
                    let rest = &l[pos + 3..];
                    let end = rest
                        .find(|c: char| !(c.is_alphanumeric() || c == '_'))
                        .unwrap_or(rest.len());
                    name = rest[..end].to_string();
                    break;
                }
            }
        }
        // qualify by enclosing impl, if any
        let mut j = (p.line as usize).min(lines.len());
        while j > 0 {
            j -= 1;
            let l = lines[j];
            if l.starts_with("impl") {
                let t = l.trim_end_matches('{').trim();
                let t = t.rsplit(" for ").next().unwrap_or(t);
                let t = t.trim_start_matches("impl").trim();
                let t: String = t.chars().take_while(|c| c.is_alphanumeric() || *c == '_').collect();
                if !t.is_empty() {
                    name = format!("{t}::{name}");
                }
                break;
            }
            if l.starts_with("fn ") || l.starts_with("pub fn ") || l.starts_with("mod ") || l.starts_with("pub mod ") {
                break;
            }
        }
    }
    // registry crates: keep crate dir + file tail only
    let rel = if let Some(i) = rel.find("/registry/src/") {
        let t = &rel[i + 14..];
        t.split_once('/').map(|x| x.1).unwrap_or(t).to_string()
    } else if rel.contains("/rustc/") || rel.contains("/library/") {
        format!("std:{}", rel.rsplit("/library/").next().unwrap_or(&rel))
    } else {
        rel
    };
    let out = format!("{rel}::{name}");
    FN_CACHE
        .lock()
        .unwrap()
        .get_or_insert_with(HashMap::new)
        .insert(key, out.clone());
    out
}

pub fn panic_class(p: &PanicInfo) -> &'static str {
    let m = &p.msg;
    if m.contains("is not a char boundary") || m.contains("byte index") && m.contains("char boundary") {
        "char-boundary"
    } else if m.contains("out of range") || m.contains("out of bounds") || m.contains("slice index") || m.contains("is out of") {
        "slice-range"
    } else if m.contains("called `Option::unwrap()` on a `None`") {
        "unwrap-none"
    } else if m.contains("called `Result::unwrap()` on an `Err`") {
        "unwrap-err"
    } else if m.contains("overflow") || m.contains("divide by zero") {
        "overflow"
    } else {
        "explicit-panic"
    }
}

pub fn is_ascii_class(s: &str) -> &'static str {
    if s.is_ascii() { "ascii" } else { "non-ascii" }
}
