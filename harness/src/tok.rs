//! Reference tokeniser for a text block (block 4): independent of the library's parser.
//! A field starts at a line start with `:NN[A-Z]?:`; its content runs to the next field start or
//! to the block terminator (a final line consisting of `-`). `\r\n` and `\n` are both line ends.

#[derive(Clone, Debug, PartialEq, Eq)]
pub struct Token {
    pub tag: String,
    /// content with line endings normalised to `\n` and trailing line ends removed
    pub content: String,
}

#[derive(Clone, Debug, Default)]
pub struct Tokens {
    /// non-blank text before the first field
    pub preamble: String,
    pub fields: Vec<Token>,
    /// whether a terminator line `-` was present
    pub terminator: bool,
}

pub fn is_tag(s: &str) -> bool {
    let b = s.as_bytes();
    (b.len() == 2 || b.len() == 3)
        && b[0].is_ascii_digit()
        && b[1].is_ascii_digit()
        && (b.len() == 2 || b[2].is_ascii_uppercase())
}

/// If `line` starts a field, return (tag, rest of line)
pub fn field_start(line: &str) -> Option<(&str, &str)> {
    let rest = line.strip_prefix(':')?;
    let close = rest.find(':')?;
    let tag = &rest[..close];
    if is_tag(tag) {
        Some((tag, &rest[close + 1..]))
    } else {
        None
    }
}

pub fn normalize_newlines(s: &str) -> String {
    s.replace("\r\n", "\n")
}

pub fn tokenize(text: &str) -> Tokens {
    let norm = normalize_newlines(text);
    let mut out = Tokens::default();
    let mut lines: Vec<&str> = norm.split('\n').collect();
    // drop trailing empty lines
    while let Some(l) = lines.last() {
        if l.trim().is_empty() {
            lines.pop();
        } else {
            break;
        }
    }
    if let Some(l) = lines.last()
        && l.trim() == "-"
    {
        out.terminator = true;
        lines.pop();
    }
    let mut cur: Option<Token> = None;
    for line in lines {
        if let Some((tag, rest)) = field_start(line) {
            if let Some(t) = cur.take() {
                out.fields.push(t);
            }
            cur = Some(Token {
                tag: tag.to_string(),
                content: rest.to_string(),
            });
        } else if let Some(t) = cur.as_mut() {
            t.content.push('\n');
            t.content.push_str(line);
        } else if !line.trim().is_empty() {
            if !out.preamble.is_empty() {
                out.preamble.push('\n');
            }
            out.preamble.push_str(line);
        }
    }
    if let Some(t) = cur.take() {
        out.fields.push(t);
    }
    for t in &mut out.fields {
        while t.content.ends_with('\n') {
            t.content.pop();
        }
    }
    out
}

pub fn render(fields: &[Token], crlf: bool, terminator: bool) -> String {
    let nl = if crlf { "\r\n" } else { "\n" };
    let mut s = String::new();
    for (i, t) in fields.iter().enumerate() {
        if i > 0 {
            s.push_str(nl);
        }
        s.push(':');
        s.push_str(&t.tag);
        s.push(':');
        if crlf {
            s.push_str(&t.content.replace('\n', "\r\n"));
        } else {
            s.push_str(&t.content);
        }
    }
    if terminator {
        s.push_str(nl);
        s.push('-');
    }
    s
}

/// Split a `:TAG:content` string as produced by `to_swift_string` into (tag, body)
pub fn split_swift_string(s: &str) -> Option<(String, String)> {
    let (tag, rest) = field_start(s)?;
    Some((tag.to_string(), normalize_newlines(rest)))
}

/// Brace-structure block splitter for a full message: returns (block id, content) in order.
/// Block 4 is special: its content ends at the first `-}` that is at a line start or directly
/// follows the opening; everything else is brace-matched.
pub fn split_blocks(text: &str) -> Option<Vec<(String, String)>> {
    let b = text.as_bytes();
    let mut i = 0usize;
    let mut out = Vec::new();
    while i < b.len() {
        if b[i].is_ascii_whitespace() {
            i += 1;
            continue;
        }
        if b[i] != b'{' {
            return None;
        }
        let colon = text[i..].find(':')? + i;
        let id = text[i + 1..colon].to_string();
        if id == "4" {
            // ends with "\n-}" (or "-}" immediately)
            let body_start = colon + 1;
            let mut j = body_start;
            let mut end = None;
            while j + 1 < b.len() {
                if b[j] == b'-' && b[j + 1] == b'}' && (j == body_start || b[j - 1] == b'\n') {
                    end = Some(j);
                    break;
                }
                j += 1;
            }
            let e = end?;
            out.push((id, text[body_start..e].to_string()));
            i = e + 2;
        } else {
            let mut depth = 0i32;
            let mut j = i;
            let mut end = None;
            while j < b.len() {
                match b[j] {
                    b'{' => depth += 1,
                    b'}' => {
                        depth -= 1;
                        if depth == 0 {
                            end = Some(j);
                            break;
                        }
                    }
                    _ => {}
                }
                j += 1;
            }
            let e = end?;
            out.push((id, text[colon + 1..e].to_string()));
            i = e + 1;
        }
    }
    Some(out)
}

/// `{TAG:value}` pairs inside a block 3 / block 5 content
pub fn split_tags(content: &str) -> Option<Vec<(String, String)>> {
    let b = content.as_bytes();
    let mut i = 0usize;
    let mut out = Vec::new();
    while i < b.len() {
        if b[i].is_ascii_whitespace() {
            i += 1;
            continue;
        }
        if b[i] != b'{' {
            return None;
        }
        let mut depth = 0i32;
        let mut j = i;
        let mut end = None;
        while j < b.len() {
            match b[j] {
                b'{' => depth += 1,
                b'}' => {
                    depth -= 1;
                    if depth == 0 {
                        end = Some(j);
                        break;
                    }
                }
                _ => {}
            }
            j += 1;
        }
        let e = end?;
        let inner = &content[i + 1..e];
        let (t, v) = inner.split_once(':').unwrap_or((inner, ""));
        out.push((t.to_string(), v.to_string()));
        i = e + 1;
    }
    Some(out)
}
