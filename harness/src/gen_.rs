//! String-level mutators shared by the workloads (hostile characters, truncation, ramps).

use crate::rng::Rng;

/// Hostile replacement characters with a class label
pub const HOSTILE: &[(char, &str)] = &[
    ('é', "2-byte-letter"),
    ('€', "3-byte-symbol"),
    ('😀', "4-byte-symbol"),
    ('٣', "non-ascii-digit"),
    ('３', "fullwidth-digit"),
    ('Ａ', "fullwidth-upper"),
    ('\0', "nul"),
    ('\t', "tab"),
];

pub fn char_len(s: &str) -> usize {
    s.chars().count()
}

/// Replace the character at char index `idx` by `ch`
pub fn subst_char(s: &str, idx: usize, ch: char) -> String {
    let mut out = String::with_capacity(s.len() + 4);
    for (i, c) in s.chars().enumerate() {
        if i == idx {
            out.push(ch);
        } else {
            out.push(c);
        }
    }
    out
}

pub fn insert_char(s: &str, idx: usize, ch: char) -> String {
    let mut out = String::with_capacity(s.len() + 4);
    let mut done = false;
    for (i, c) in s.chars().enumerate() {
        if i == idx {
            out.push(ch);
            done = true;
        }
        out.push(c);
    }
    if !done {
        out.push(ch);
    }
    out
}

pub fn delete_char(s: &str, idx: usize) -> String {
    s.chars()
        .enumerate()
        .filter(|(i, _)| *i != idx)
        .map(|(_, c)| c)
        .collect()
}

/// Truncate at byte offset (moved down to a char boundary)
pub fn truncate_at(s: &str, mut off: usize) -> String {
    if off >= s.len() {
        return s.to_string();
    }
    while off > 0 && !s.is_char_boundary(off) {
        off -= 1;
    }
    s[..off].to_string()
}

pub const SWIFT_X: &[char] = &[
    'a', 'b', 'c', 'd', 'e', 'f', 'g', 'h', 'i', 'j', 'k', 'l', 'm', 'n', 'o', 'p', 'q', 'r', 's', 't', 'u', 'v',
    'w', 'x', 'y', 'z', 'A', 'B', 'C', 'D', 'E', 'F', 'G', 'H', 'I', 'J', 'K', 'L', 'M', 'N', 'O', 'P', 'Q', 'R',
    'S', 'T', 'U', 'V', 'W', 'X', 'Y', 'Z', '0', '1', '2', '3', '4', '5', '6', '7', '8', '9', '/', '-', '?', ':',
    '(', ')', '.', ',', '\'', '+', ' ',
];
pub const UPPER: &[char] = &[
    'A', 'B', 'C', 'D', 'E', 'F', 'G', 'H', 'I', 'J', 'K', 'L', 'M', 'N', 'O', 'P', 'Q', 'R', 'S', 'T', 'U', 'V',
    'W', 'X', 'Y', 'Z',
];
pub const DIGITS: &[char] = &['0', '1', '2', '3', '4', '5', '6', '7', '8', '9'];
pub const MIXED: &[char] = &[
    'A', 'Z', 'a', 'z', '0', '9', '/', ':', '-', ',', '.', ' ', '\n', '\r', '{', '}', '+', '#', '@', '_', '"', '\\',
    'é', '€', '😀', '٣', '３', '\0', '\t',
];

pub fn random_mixed(r: &mut Rng, len: usize) -> String {
    r.string(MIXED, len)
}
