//! JSON helpers: structural diff with path patterns, exact-decimal number comparison.

use serde_json::Value;

/// First difference between two JSON values as a path pattern (array indices shown as `#`)
pub fn first_diff(a: &Value, b: &Value) -> Option<String> {
    fn rec(a: &Value, b: &Value, path: &mut Vec<String>) -> Option<String> {
        match (a, b) {
            (Value::Object(x), Value::Object(y)) => {
                for (k, va) in x {
                    match y.get(k) {
                        Some(vb) => {
                            path.push(k.clone());
                            if let Some(d) = rec(va, vb, path) {
                                return Some(d);
                            }
                            path.pop();
                        }
                        None => {
                            if !va.is_null() {
                                path.push(k.clone());
                                return Some(format!("{}(missing-right)", path.join("/")));
                            }
                        }
                    }
                }
                for (k, vb) in y {
                    if !x.contains_key(k) && !vb.is_null() {
                        path.push(k.clone());
                        return Some(format!("{}(missing-left)", path.join("/")));
                    }
                }
                None
            }
            (Value::Array(x), Value::Array(y)) => {
                if x.len() != y.len() {
                    return Some(format!("{}(length)", path.join("/")));
                }
                for (va, vb) in x.iter().zip(y) {
                    path.push("#".into());
                    if let Some(d) = rec(va, vb, path) {
                        return Some(d);
                    }
                    path.pop();
                }
                None
            }
            (Value::Number(x), Value::Number(y)) => {
                if num_eq(x, y) { None } else { Some(path.join("/")) }
            }
            _ => {
                if a == b { None } else { Some(path.join("/")) }
            }
        }
    }
    rec(a, b, &mut Vec::new())
}

/// exact comparison of JSON numbers through their shortest decimal rendering (10000 == 10000.0)
pub fn num_eq(x: &serde_json::Number, y: &serde_json::Number) -> bool {
    canon_num(&x.to_string()) == canon_num(&y.to_string())
}

pub fn canon_num(s: &str) -> String {
    // plain decimal renderings only; exponent forms are compared as f64 text
    if s.contains('e') || s.contains('E') {
        return match s.parse::<f64>() {
            Ok(f) => format!("{f:e}"),
            Err(_) => s.to_string(),
        };
    }
    let (neg, t) = match s.strip_prefix('-') {
        Some(r) => (true, r),
        None => (false, s),
    };
    let (i, f) = t.split_once('.').unwrap_or((t, ""));
    let i = i.trim_start_matches('0');
    let f = f.trim_end_matches('0');
    let mut out = String::new();
    if neg && !(i.is_empty() && f.is_empty()) {
        out.push('-');
    }
    out.push_str(if i.is_empty() { "0" } else { i });
    if !f.is_empty() {
        out.push('.');
        out.push_str(f);
    }
    out
}

/// Walk all leaves: f(path pattern, value)
pub fn walk(v: &Value, f: &mut dyn FnMut(&str, &Value)) {
    fn rec(v: &Value, path: &mut Vec<String>, f: &mut dyn FnMut(&str, &Value)) {
        match v {
            Value::Object(m) => {
                f(&path.join("/"), v);
                for (k, x) in m {
                    path.push(k.clone());
                    rec(x, path, f);
                    path.pop();
                }
            }
            Value::Array(a) => {
                f(&path.join("/"), v);
                for x in a {
                    path.push("#".into());
                    rec(x, path, f);
                    path.pop();
                }
            }
            _ => f(&path.join("/"), v),
        }
    }
    rec(v, &mut Vec::new(), f)
}
