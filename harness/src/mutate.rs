//! G-mut: structural mutators on a token list produced by the *reference* tokeniser.

use crate::rng::Rng;
use crate::tok::Token;
use std::collections::BTreeMap;

#[derive(Clone, Debug)]
pub struct Mutant {
    /// mutation kind label (stratum)
    pub kind: &'static str,
    pub fields: Vec<Token>,
    /// index of the affected token in `fields` (where meaningful)
    pub at: usize,
}

/// contents seen per tag over the corpus, used to insert well-formed foreign fields
pub type Pool = BTreeMap<String, Vec<String>>;

pub fn pool_from(contents: &[(String, String)]) -> Pool {
    let mut p: Pool = BTreeMap::new();
    for (t, c) in contents {
        let e = p.entry(t.clone()).or_default();
        if e.len() < 12 {
            e.push(c.clone());
        }
    }
    p
}

fn tok(tag: &str, content: &str) -> Token {
    Token {
        tag: tag.to_string(),
        content: content.to_string(),
    }
}

/// All single structural mutations of `base` (position-exhaustive for insert-unknown, duplicate,
/// delete, swap; sampled for foreign-tag insertion and moves unless `full`).
pub fn single_mutations(base: &[Token], pool: &Pool, r: &mut Rng, full: bool) -> Vec<Mutant> {
    let n = base.len();
    let mut out = Vec::new();
    // unknown tag at every position (incl. after the last field)
    for pos in 0..=n {
        let mut f = base.to_vec();
        f.insert(pos, tok("99Z", "JUNK"));
        out.push(Mutant {
            kind: if pos == n { "append-unknown" } else { "insert-unknown" },
            fields: f,
            at: pos,
        });
    }
    // duplicate every field in place
    for pos in 0..n {
        let mut f = base.to_vec();
        f.insert(pos + 1, base[pos].clone());
        out.push(Mutant {
            kind: "duplicate",
            fields: f,
            at: pos + 1,
        });
    }
    // swap adjacent
    for pos in 0..n.saturating_sub(1) {
        if base[pos] == base[pos + 1] {
            continue;
        }
        let mut f = base.to_vec();
        f.swap(pos, pos + 1);
        out.push(Mutant {
            kind: "swap-adjacent",
            fields: f,
            at: pos,
        });
    }
    // delete
    for pos in 0..n {
        let mut f = base.to_vec();
        f.remove(pos);
        out.push(Mutant {
            kind: "delete",
            fields: f,
            at: pos,
        });
    }
    // well-formed field of a foreign tag (a tag the base does not contain) at positions
    let foreign: Vec<&String> = pool.keys().filter(|t| !base.iter().any(|b| &b.tag == *t)).collect();
    if !foreign.is_empty() {
        let positions: Vec<usize> = if full { (0..=n).collect() } else { (0..3).map(|_| r.below(n + 1)).chain([n]).collect() };
        for pos in positions {
            let t = *r.pick(&foreign);
            let c = r.pick(&pool[t]).clone();
            let mut f = base.to_vec();
            f.insert(pos, tok(t, &c));
            out.push(Mutant {
                kind: if pos == n { "append-foreign" } else { "insert-foreign" },
                fields: f,
                at: pos,
            });
        }
    }
    // a copy of an own field moved to another position
    if n >= 3 {
        let k = if full { n * 2 } else { 4 };
        for _ in 0..k {
            let from = r.below(n);
            let mut to = r.below(n);
            if to == from {
                to = (to + 1) % n;
            }
            let mut f = base.to_vec();
            let t = f.remove(from);
            f.insert(to, t);
            if f != base {
                out.push(Mutant {
                    kind: "move",
                    fields: f,
                    at: to,
                });
            }
        }
    }
    // option letter changed to one never used for that number
    for pos in 0..n {
        if base[pos].tag.len() == 3 {
            let mut f = base.to_vec();
            f[pos].tag = format!("{}Y", &base[pos].tag[..2]);
            out.push(Mutant {
                kind: "option-letter-unknown",
                fields: f,
                at: pos,
            });
        }
    }
    // append a second copy of the whole message body
    {
        let mut f = base.to_vec();
        f.extend(base.iter().cloned());
        out.push(Mutant {
            kind: "append-second-message",
            fields: f,
            at: n,
        });
    }
    // terminator / marker look-alikes inside a field's content (all are content for the reference
    // tokeniser: the block terminator is only the final line, a field starts only with :NN[A-Z]?:)
    for pos in 0..n {
        for (kind, extra) in [
            ("dash-line-inside", "\n-\nTEXT AFTER DASH LINE"),
            ("colon-line-inside", "\n:NOT A TAG: TEXT"),
            ("dash-brace-inside", "\nTEXT -} MORE"),
            ("empty-line-inside", "\n\nTEXT AFTER EMPTY LINE"),
            ("blank-line-inside", "\n   \nTEXT AFTER BLANK LINE"),
        ] {
            let mut f = base.to_vec();
            f[pos].content.push_str(extra);
            out.push(Mutant { kind, fields: f, at: pos });
        }
    }
    // the same look-alikes as the last / first characters of a value (a value may end in a hyphen
    // or a colon; only a line consisting of "-" alone terminates the block)
    for pos in 0..n {
        for (kind, extra, front) in [("ends-with-hyphen", "-", false), ("ends-with-colon", ":", false), ("ends-with-space-hyphen", " -", false), ("starts-with-hyphen", "-", true)] {
            let mut f = base.to_vec();
            if front {
                f[pos].content.insert_str(0, extra);
            } else {
                f[pos].content.push_str(extra);
            }
            out.push(Mutant { kind, fields: f, at: pos });
        }
    }
    // a line longer than any documented line (no field allows more than 78 characters per line)
    for pos in 0..n {
        let mut f = base.to_vec();
        let mut lines: Vec<String> = f[pos].content.split('\n').map(|x| x.to_string()).collect();
        let k = lines.len() - 1;
        lines[k].push_str(&"X".repeat(80));
        f[pos].content = lines.join("\n");
        out.push(Mutant { kind: "line-too-long", fields: f, at: pos });
    }
    // more lines than any documented maximum
    for pos in 0..n {
        let mut f = base.to_vec();
        for k in 0..40 {
            f[pos].content.push_str(&format!("\nEXTRA LINE {k}"));
        }
        out.push(Mutant { kind: "extra-40-lines", fields: f, at: pos });
    }
    // junk line after each field (becomes part of its content for the tokeniser)
    for pos in 0..n {
        let mut f = base.to_vec();
        f[pos].content.push_str("\nTRAILING JUNK LINE");
        out.push(Mutant {
            kind: if pos == n - 1 { "trailing-line" } else { "extra-line" },
            fields: f,
            at: pos,
        });
    }
    out
}

/// Generic content corruptions that no documented field format admits for a *structured* field;
/// used only together with a per-tag whitelist of structured tags (see `structured_tag`).
pub fn corruptions(content: &str) -> Vec<(&'static str, String)> {
    let mut v = vec![("emptied", String::new()), ("bang", "!".to_string())];
    let first = content.lines().next().unwrap_or("");
    v.push(("prefix-hash", format!("#{first}")));
    v
}

/// Tags whose documented format is a fixed structure (codes, dates, currency+amount, BIC, numbers)
/// so that the corruptions above are certainly outside the format.
pub fn structured_tag(tag: &str) -> bool {
    matches!(
        tag,
        "11R" | "11S" | "12" | "13C" | "13D" | "19" | "23B" | "23E" | "26T" | "28" | "28C" | "28D" | "30" | "32A"
            | "32B" | "32C" | "32D" | "33B" | "34F" | "36" | "37H" | "51A" | "52A" | "53A" | "54A" | "55A" | "56A"
            | "57A" | "58A" | "60F" | "60M" | "61" | "62F" | "62M" | "64" | "65" | "71A" | "71F" | "71G" | "90C"
            | "90D" | "50C" | "50G"
    )
}
