//! C08 — JSON conversion is lossless and agrees with the MT serialisation.
//!
//! Metamorphic equalities on every accepted message / field value plus a structural scan:
//!   from_value(to_value(m)) == m (Debug and re-serialised MT),
//!   publish(to_value(m)) == to_mt_message(m), parse plugin JSON == to_value(parse(text)),
//!   every written occurrence sits at its input position (sequence index k, repetition k),
//!   no empty placeholder ("", {}, []) anywhere under `fields`, amount / rate leaves are numbers.
//! Inputs: generated well-formed messages of all 30 types (all options, repetitions), the corpus,
//! and every accepted field value of the 114 field types from corpus contents and their variants.
//! Key: `C08|<Type>|<clause>|<json path pattern>`.

use crate::corpus::{self, Corpus};
use crate::jsonu::{first_diff, walk};
use crate::monitor::*;
use crate::registry::{FIELDS, msg};
use crate::rng::{Rng, hash_bytes2};
use crate::spec::layout::{self, Gen, GenOptions};
use crate::tok::{self, Token};
use serde::{Deserialize, Serialize};
use serde_json::{Value, json};

#[derive(Clone, Debug, Serialize, Deserialize)]
pub enum Case {
    /// full message text; `written` = the generator's record of what was written (may be empty)
    Message {
        mt: String,
        text: String,
        written: Vec<super::c03::WField>,
        /// placeholder scan only for inputs in which no empty component was written
        #[serde(default)]
        no_scan: bool,
    },
    Field { ty: String, input: String, variant: Option<String> },
}

fn v(l: &mut Local, ty: &str, clause: &str, path: &str, what: String, case: &Case) {
    l.violation(format!("C08|{ty}|{clause}|{path}"), what, || serde_json::to_value(case).unwrap());
}

fn scan_placeholders(ty: &str, j: &Value, l: &mut Local, case: &Case) {
    let mut found: Vec<(String, &'static str)> = Vec::new();
    walk(j, &mut |path, val| {
        let kind = match val {
            Value::String(s) if s.is_empty() => Some("empty-string"),
            Value::Object(m) if m.is_empty() => Some("empty-object"),
            Value::Array(a) if a.is_empty() => Some("empty-array"),
            _ => None,
        };
        if let Some(k) = kind
            && !path.is_empty()
        {
            found.push((path.to_string(), k));
        }
        // amount-like leaves must be numbers when their object is present
        if let Value::Object(m) = val {
            for key in ["amount", "rate"] {
                if let Some(x) = m.get(key)
                    && !x.is_number()
                {
                    found.push((format!("{path}/{key}"), "numeric-component-not-a-number"));
                }
            }
        }
    });
    for (p, k) in found {
        v(l, ty, k, &p, format!("{ty}: JSON has {k} at {p}"), case);
    }
}

pub fn judge(_cfg: &Config, case: &Case, l: &mut Local, stratum: &str) {
    match case {
        Case::Message { mt, text, written, no_scan } => {
            let ops = msg(mt).expect("type");
            let ty = format!("MT{mt}");
            let m = match guard(|| (ops.parse_full)(text)) {
                Ok(Ok(m)) => m,
                Ok(Err(_)) => {
                    l.eval(stratum, "rejected", false, 0);
                    return;
                }
                Err(_) => {
                    l.eval(stratum, "panic(C07)", false, 0);
                    return;
                }
            };
            l.eval(stratum, "accepted", true, hash_bytes2(mt, text));
            let Ok(Ok(j)) = guard(|| m.json()) else {
                v(l, &ty, "to-value-failed", "-", format!("{ty}: to_value failed"), case);
                return;
            };
            match guard(|| (ops.full_from_json)(&j)) {
                Ok(Ok(m2)) => {
                    if m2.dbg() != m.dbg() {
                        let d = m2.json().ok().and_then(|j2| first_diff(&j, &j2)).unwrap_or_else(|| "debug-only".into());
                        v(l, &ty, "json-round-trip-changes-message", &d, format!("{ty}: from_value(to_value(m)) differs from m at {d}"), case);
                    }
                }
                Ok(Err(e)) => v(l, &ty, "own-json-not-readable", &e.chars().take_while(|c| !c.is_ascii_digit()).take(50).collect::<String>(), format!("{ty}: from_value(to_value(m)) fails: {}", e.chars().take(100).collect::<String>()), case),
                Err(_) => {}
            }
            if let Ok(direct) = guard(|| m.to_mt_message()) {
                match guard(|| crate::plug::publish_json(&j)) {
                    Ok(Ok(p)) => {
                        if p != direct {
                            // envelope differences are keyed by their cause (which block, how), not by message type
                            let cause = match (tok::split_blocks(&direct), tok::split_blocks(&p)) {
                                (Some(a), Some(b)) => {
                                    let ids = |x: &Vec<(String, String)>| x.iter().map(|y| y.0.clone()).collect::<Vec<_>>();
                                    if ids(&a) != ids(&b) {
                                        let gone: Vec<String> = a.iter().filter(|y| !b.iter().any(|z| z.0 == y.0)).map(|y| format!("block-{}-{}", y.0, if y.1.trim().is_empty() { "present-but-empty-dropped" } else { "dropped" })).collect();
                                        let come: Vec<String> = b.iter().filter(|y| !a.iter().any(|z| z.0 == y.0)).map(|y| format!("block-{}-invented", y.0)).collect();
                                        Some([gone, come].concat().join("+"))
                                    } else {
                                        a.iter().zip(&b).find(|(x, y)| x.1 != y.1).map(|(x, _)| x.0.clone()).filter(|id| id != "4").map(|id| format!("block-{id}-differs"))
                                    }
                                }
                                _ => None,
                            };
                            match cause {
                                Some(c) => v(l, "envelope", "publish-differs-from-serialise", &c, format!("{ty}: publishing the message's JSON gives a different envelope than to_mt_message ({c})"), case),
                                None => v(l, &ty, "publish-differs-from-serialise", "-", format!("{ty}: publishing the message's JSON gives a different text than to_mt_message"), case),
                            }
                        }
                    }
                    Ok(Err(e)) => v(l, &ty, "publish-rejects-own-json", "-", format!("{ty}: publish fails on the message's own JSON: {}", e.chars().take(100).collect::<String>()), case),
                    Err(_) => {}
                }
            }
            match guard(|| crate::plug::parse_mt(text)) {
                Ok(Ok((pj, _))) => {
                    if let Some(d) = first_diff(&pj, &j) {
                        v(l, &ty, "parse-plugin-differs-from-to-value", &d, format!("{ty}: parse plugin JSON differs from to_value(parse(text)) at {d}"), case);
                    }
                }
                Ok(Err(_)) => v(l, &ty, "parse-plugin-rejects", "-", format!("{ty}: parse plugin rejects a text the typed parser accepts"), case),
                Err(_) => {}
            }
            // the envelope part of the JSON (everything beside `fields`): no empty placeholder either, as long as
            // the text carries no tag with an empty value (":}" as in {TNG:} or {108:})
            if !text.contains(":}")
                && let Value::Object(top) = &j
            {
                for (k, hv) in top {
                    if k != "fields" {
                        let mut found: Vec<String> = Vec::new();
                        walk(hv, &mut |path, val| {
                            // the header object itself may be empty: that is the image of a block that is present
                            // with nothing in it (or nothing the library reads, a C10 matter)
                            let empty = match val {
                                Value::String(s) => s.is_empty(),
                                Value::Object(m) => m.is_empty() && !path.is_empty(),
                                Value::Array(a) => a.is_empty() && !path.is_empty(),
                                _ => false,
                            };
                            if empty {
                                found.push(path.to_string());
                            }
                        });
                        for pth in found {
                            v(l, "envelope", "empty-placeholder", &format!("{k}{pth}"), format!("{ty}: the JSON of {k} has an empty placeholder at {pth:?} although no empty value was written"), case);
                        }
                    }
                }
            }
            if let Some(fj) = j.get("fields") {
                if !*no_scan {
                    scan_placeholders(&ty, fj, l, case);
                }
                for f in written {
                    match super::c03::locate(mt, fj, f) {
                        None => v(l, &ty, "occurrence-not-at-input-position", &f.tag, format!("{ty}: written field {} (sequence {:?}, repetition {}) is not at that position in the JSON", f.tag, f.seq_index, f.occurrence), case),
                        Some(val) => {
                            if let Err(why) = super::c03::covers(&f.content, val) {
                                v(l, &ty, "occurrence-content-differs", &f.tag, format!("{ty}: JSON of field {} at its input position does not carry what was written: {why}", f.tag), case);
                            }
                        }
                    }
                }
            }
        }
        Case::Field { ty, input, variant } => {
            let ops = crate::registry::field(ty).expect("field type");
            let r = match variant {
                None => guard(|| (ops.parse)(input)),
                Some(x) => guard(|| (ops.parse_variant)(input, Some(x.as_str()), None)),
            };
            let val = match r {
                Ok(Ok(x)) => x,
                Ok(Err(_)) => {
                    l.eval(stratum, "rejected", false, 0);
                    return;
                }
                Err(_) => {
                    l.eval(stratum, "panic(C07)", false, 0);
                    return;
                }
            };
            l.eval(stratum, "accepted", true, hash_bytes2(ty, input));
            let Ok(Ok(j)) = guard(|| val.json()) else { return };
            match guard(|| (ops.from_json)(&j)) {
                Ok(Ok(v2)) => {
                    if v2.dbg() != val.dbg() {
                        let d = v2.json().ok().and_then(|j2| first_diff(&j, &j2)).unwrap_or_else(|| "debug-only".into());
                        v(l, ty, "json-round-trip-changes-value", &d, format!("{ty}: from_value(to_value(v)) differs from v at {d}"), case);
                    }
                }
                Ok(Err(e)) => v(l, ty, "own-json-not-readable", &e.chars().take_while(|c| !c.is_ascii_digit()).take(50).collect::<String>(), format!("{ty}: from_value(to_value(v)) fails: {}", e.chars().take(100).collect::<String>()), case),
                Err(_) => {}
            }
            // every numeric component is a finite JSON number (an overflowing or non-decimal spelling the parser
            // took shows as null, a string or an out-of-range value)
            crate::jsonu::walk(&j, &mut |path, x| {
                if let Value::Object(m) = x {
                    for key in ["amount", "rate"] {
                        if let Some(n) = m.get(key)
                            && !n.as_f64().map(|f| f.is_finite()).unwrap_or(false)
                        {
                            v(l, ty, "numeric-component-not-a-finite-number", &format!("{path}/{key}"), format!("{ty}: accepted {:?}, its JSON carries {n} as {key}", input.chars().take(40).collect::<String>()), case);
                        }
                    }
                }
            });
            // the placeholder scan is done at message level only: at field level an empty string can
            // be the faithful image of an empty line that was written (a C05 matter), not a placeholder
        }
    }
}

fn field_types_for_tag(tag: &str) -> Vec<&'static str> {
    let num = &tag[..2];
    FIELDS.iter().filter(|f| f.name.strip_prefix("Field").map(|r| r.starts_with(num)).unwrap_or(false)).map(|f| f.name).collect()
}

pub fn run(cfg: &Config) -> i32 {
    let started = std::time::Instant::now();
    let c = Corpus::load(&cfg.verif_dir);
    let layouts = layout::layouts();
    // envelope (blocks 1,2,3,5) per type taken from the corpus; body replaced by generated ones
    let mut envelope: std::collections::HashMap<String, (String, String)> = Default::default();
    for e in &c.entries {
        if envelope.contains_key(&e.mt) {
            continue;
        }
        if let Some(b4) = corpus::block4_of(&e.text)
            && let Some(i) = e.text.find(b4.as_str())
        {
            envelope.insert(e.mt.clone(), (e.text[..i].to_string(), e.text[i + b4.len()..].to_string()));
        }
    }
    let per_type = cfg.tier.pick(400u64, 8000u64);
    let n_gen = layouts.len() as u64 * per_type;
    let ncorpus = c.entries.len() as u64;
    let contents = corpus::field_contents(&c);
    let nfield = contents.len() as u64;
    // spec-derived candidates of every concrete field type (boundary lengths, dates around the century
    // window, every character class): whatever is accepted must survive the JSON conversions
    let mut spec_cands: Vec<(String, String)> = Vec::new();
    for spec in crate::spec::fieldfmt::specs() {
        let mut rr = Rng::new(cfg.seed, &format!("c08-spec:{}", spec.ty), 0);
        for cand in crate::spec::fieldfmt::candidates(&spec, cfg.seed as usize, &mut rr, 0) {
            if !cand.content.contains('\r') {
                spec_cands.push((spec.ty.to_string(), cand.content));
            }
        }
    }
    // option letters beyond the layout table: the library's own types accept more options than the
    // documented layouts list (e.g. 57C in MT191); every multi-option position of the maximal message
    // of each type gets every letter A-Z with a content in that option's documented format - whatever
    // the library accepts is in scope of the JSON equalities
    let mut letter_msgs: Vec<(String, String)> = Vec::new();
    {
        let specs = crate::spec::fieldfmt::specs();
        for lay in &layouts {
            let Some((pre, post)) = envelope.get(lay.mt) else { continue };
            let mut r0 = Rng::new(0, &format!("c08-letters:{}", lay.mt), 0);
            let mut g0 = Gen { r: &mut r0, counter: 11, mt: lay.mt, opt: GenOptions { optional_per_mille: 1000, max_repeat: 1, max_seq: 1, maximal: true, minimal: false }, force_option: None, force_include: None };
            let gf = g0.message(lay);
            let mut toks: Vec<Token> = Vec::new();
            let mut ok = true;
            for f in &gf {
                match crate::spec::canonical(&f.tag, &f.content) {
                    crate::spec::Canon::Ok(c) => toks.push(Token { tag: f.tag.clone(), content: c }),
                    _ => ok = false,
                }
            }
            if !ok {
                continue;
            }
            if lay.mt == "204" && toks.len() >= 2 && toks[1].tag == "19" {
                toks.swap(0, 1);
            }
            for (i, t) in toks.iter().enumerate() {
                let base = &t.tag[..2];
                if !matches!(base, "25" | "32" | "50" | "52" | "53" | "54" | "55" | "56" | "57" | "58" | "59" | "60" | "62" | "11" | "21" | "23" | "28" | "34" | "71" | "77" | "90") {
                    continue;
                }
                for lt in "ABCDEFGHIJKLMNOPQRSTUVWXYZ".chars() {
                    let tag = format!("{base}{lt}");
                    if tag == t.tag {
                        continue;
                    }
                    let Some(spec) = specs.iter().find(|s| s.ty == format!("Field{tag}")) else { continue };
                    let mut rr = Rng::new(0, "c08-letters-cand", i as u64);
                    let Some(c) = crate::spec::fieldfmt::candidates(spec, 2, &mut rr, 0).into_iter().find(|c| c.class == "canonical") else { continue };
                    let mut fs = toks.clone();
                    fs[i] = Token { tag, content: c.content };
                    letter_msgs.push((lay.mt.to_string(), format!("{pre}\n{}\n{post}", tok::render(&fs, false, false))));
                }
            }
        }
    }
    // envelope values: every block-3 tag alone at its boundary lengths, every valued block-5 tag alone, under an
    // input and an output header
    {
        let bodies: Vec<(String, String)> = envelope.iter().filter_map(|(mt, (pre, post))| c.entries.iter().find(|e| e.mt == *mt).and_then(|e| corpus::block4_of(&e.text)).map(|b| { let _ = (pre, post); (mt.to_string(), tok::render(&tok::tokenize(&b).fields, false, false)) })).collect();
        let mut k = 0usize;
        for t in super::c10::B3_TAGS {
            for (_, val) in super::c10::b3_boundary_values(t) {
                for output in [false, true] {
                    k += 1;
                    if bodies.is_empty() {
                        continue;
                    }
                    let (mt, b4) = &bodies[k % bodies.len()];
                    let b2 = if output { super::c10::block2_output(mt, k, 47) } else { super::c10::block2_input(mt, k, 17) };
                    letter_msgs.push((mt.clone(), format!("{{1:{}}}{{2:{b2}}}{{3:{{{t}:{val}}}}}{{4:\n{b4}\n-}}{{5:{{CHK:123456789ABC}}}}", super::c10::block1(k, false))));
                }
            }
        }
        for sparse in ["{3:}", "{5:}"] {
            if let Some((mt, b4)) = bodies.first() {
                let (b3, b5) = if sparse.starts_with("{3") { (sparse, "") } else { ("", sparse) };
                letter_msgs.push((mt.clone(), format!("{{1:{}}}{{2:{}}}{b3}{{4:\n{b4}\n-}}{b5}", super::c10::block1(1, false), super::c10::block2_input(mt, 1, 17))));
            }
        }
        for t in super::c10::B5_TAGS {
            let val = super::c10::b5_value(t, 3);
            if val.is_empty() || bodies.is_empty() {
                continue;
            }
            k += 1;
            let (mt, b4) = &bodies[k % bodies.len()];
            letter_msgs.push((mt.clone(), format!("{{1:{}}}{{2:{}}}{{4:\n{b4}\n-}}{{5:{{{t}:{val}}}}}", super::c10::block1(k, false), super::c10::block2_input(mt, k, 17))));
        }
    }
    let nletters = letter_msgs.len() as u64;
    // amount- and rate-bearing fields with the spellings a float parser would take, overflowing exponents included
    for (ty, prefix, suffix, _, has_ccy) in super::c06::FIELDS {
        for ccy in if *has_ccy { vec!["USD", "JPY"] } else { vec![""] } {
            let extra = [("exp-overflow", "9e999"), ("exp-overflow-upper", "9E999"), ("exp-overflow-309", "1e309"), ("exp-overflow-comma", "1,5e999"), ("exp-underflow", "1e-999")];
            for (_, sp) in super::c06::SPELLINGS.iter().chain(extra.iter()) {
                spec_cands.push((ty.to_string(), format!("{}{sp}{suffix}", prefix.replace("{CCY}", ccy))));
            }
            // more digits than a double holds (only a parser without a length check takes them)
            spec_cands.push((ty.to_string(), format!("{}{}{suffix}", prefix.replace("{CCY}", ccy), "9".repeat(400))));
            spec_cands.push((ty.to_string(), format!("{}{},5{suffix}", prefix.replace("{CCY}", ccy), "9".repeat(320))));
        }
    }
    let nspec = spec_cands.len() as u64;
    let total_n = n_gen + ncorpus + nfield + nspec + nletters;
    let total = par_for(cfg, total_n, |i, l| {
        if i >= n_gen + ncorpus + nfield + nspec {
            let (mt, text) = &letter_msgs[(i - n_gen - ncorpus - nfield - nspec) as usize];
            let case = Case::Message { mt: mt.clone(), text: text.clone(), written: vec![], no_scan: true };
            judge(cfg, &case, l, &format!("MT{mt}/other-letter"));
            return;
        }
        if i >= n_gen + ncorpus + nfield {
            let (ty, content) = &spec_cands[(i - n_gen - ncorpus - nfield) as usize];
            let case = Case::Field { ty: ty.clone(), input: content.clone(), variant: None };
            judge(cfg, &case, l, &format!("field:{ty}"));
            return;
        }
        if i < n_gen {
            let li = (i % layouts.len() as u64) as usize;
            let vi = i / layouts.len() as u64;
            let lay = &layouts[li];
            let mut r = Rng::new(cfg.seed, &format!("c08:{}", lay.mt), vi);
            let mut opt = GenOptions { optional_per_mille: [200, 500, 900][(vi % 3) as usize], max_repeat: 3, max_seq: [1, 2, 3, 5][(vi % 4) as usize], maximal: vi % 17 == 0, minimal: false };
            if vi % 19 == 0 {
                opt.minimal = true;
                opt.maximal = false;
            }
            let mut g = Gen { r: &mut r, counter: (vi as usize) * 60, mt: lay.mt, opt, force_option: None, force_include: None };
            let Some(mut w) = super::c03::build(lay, &mut g, l, "c08") else { return };
            if lay.mt == "204" && w.fields.len() >= 2 && w.fields[1].tag == "19" {
                w.fields.swap(0, 1);
            }
            let Some((pre, post)) = envelope.get(lay.mt) else { return };
            let toks: Vec<Token> = w.fields.iter().map(|f| Token { tag: f.tag.clone(), content: f.content.clone() }).collect();
            let body = tok::render(&toks, false, false);
            // two thirds of the cases in a generated envelope (input / output headers of every
            // documented length, 8- and 11-character BICs, block 3 and 5 tags), one third in the corpus envelope
            let k = vi as usize;
            let text = match vi % 3 {
                0 => format!("{pre}\n{body}\n{post}"),
                1 => format!(
                    "{{1:{}}}{{2:{}}}{{3:{{108:{}}}{{121:{}}}}}{{4:\n{body}\n-}}{{5:{{CHK:{}}}}}",
                    super::c10::block1(k, k % 2 == 0),
                    super::c10::block2_input(lay.mt, k, [17, 18, 21][(k / 3) % 3]),
                    super::c10::b3_value("108", k),
                    super::c10::b3_value("121", k),
                    super::c10::b5_value("CHK", k)
                ),
                _ => format!(
                    "{{1:{}}}{{2:{}}}{{4:\n{body}\n-}}",
                    super::c10::block1(k, k % 2 == 1),
                    super::c10::block2_output(lay.mt, k, [46, 47][k % 2])
                ),
            };
            let case = Case::Message { mt: lay.mt.to_string(), text, written: w.fields, no_scan: false };
            let st = format!("MT{}/generated", lay.mt);
            if l.want_sample(&st) {
                if let Case::Message { text, .. } = &case {
                    l.sample(&st, json!({"text": text}));
                }
            }
            judge(cfg, &case, l, &st);
        } else if i < n_gen + ncorpus {
            let e = &c.entries[(i - n_gen) as usize];
            let case = Case::Message { mt: e.mt.clone(), text: e.text.clone(), written: vec![], no_scan: false };
            judge(cfg, &case, l, &format!("MT{}/corpus", e.mt));
            // hostile-but-possibly-accepted variants: every spelling tweak of every field of the message
            if let Some(b4) = corpus::block4_of(&e.text) {
                let toks = tok::tokenize(&b4).fields;
                for (fi, f) in toks.iter().enumerate() {
                    for (lab, nc) in super::c02::tweaks(&f.content) {
                        let mut fs = toks.clone();
                        fs[fi].content = nc;
                        let nb4 = format!("\n{}\n", tok::render(&fs, false, false));
                        let case = Case::Message { mt: e.mt.clone(), text: e.text.replacen(b4.as_str(), &nb4, 1), written: vec![], no_scan: true };
                        judge(cfg, &case, l, &format!("MT{}/tweak:{lab}", e.mt));
                    }
                }
            }
        } else {
            let (tag, content) = &contents[(i - n_gen - ncorpus) as usize];
            let letter = tag.get(2..3).map(|s| s.to_string());
            let mut variants: Vec<String> = vec![content.clone()];
            for (_, t) in super::c02::tweaks(content) {
                variants.push(t);
            }
            for inp in variants {
                for ty in field_types_for_tag(tag) {
                    let case = Case::Field { ty: ty.to_string(), input: inp.clone(), variant: None };
                    judge(cfg, &case, l, &format!("field:{ty}"));
                    if let Some(lt) = &letter {
                        let case = Case::Field { ty: ty.to_string(), input: inp.clone(), variant: Some(lt.clone()) };
                        judge(cfg, &case, l, &format!("field:{ty}"));
                    }
                }
            }
        }
    });
    let mut rep = Report::default();
    rep.rule = "cases = generated well-formed messages of all 30 types inside a real envelope (optional densities, 1-5 sequence occurrences, repeated fields, all options), every corpus message, and every corpus field content with spelling variants through every field type of its number. Non-trivial = the input was accepted, so the JSON conversions were executed; distinct = distinct (type, input) digests".into();
    rep.assumptions = vec!["message equality is judged on Debug rendering; JSON equality identifies null with absent and compares numbers by exact decimal value".into()];
    rep.required_strata = layouts.iter().map(|l| format!("MT{}/generated", l.mt)).collect();
    rep.min_evals = 1000;
    finish(cfg, started, total, rep)
}

pub fn replay(cfg: &Config, case: &Value) -> Local {
    let mut l = Local::default();
    let c: Case = serde_json::from_value(case.clone()).expect("C08 case");
    judge(cfg, &c, &mut l, "replay");
    l
}
