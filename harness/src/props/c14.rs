//! C14 — Field option letters decide the variant and are preserved.
//!
//! (a) letter dispatch: for every multi-option family, every letter A-Z (and none) and contents
//!     valid for at least one option (incl. deliberately ambiguous ones): an accepted
//!     `parse_with_variant(c, L)` must serialise under tag base+L; a letter the family does not
//!     document must not be converted into another option.
//! (b) heuristic parse without a letter: the returned variant's own concrete parser must accept
//!     the content, and re-parsing its serialisation with its letter must give the same value.
//! (c) message positions: every letter A-Z at every multi-option position of generated valid
//!     messages; an accepted message must show the written letter in its serialisation.
//! Oracle: the letter itself (spec-free) + the library's concrete per-option parsers as referees.
//! Key: `C14|<Family or MT position>|<clause>|<written>-><observed>`.

use crate::monitor::*;
use crate::registry::field;
use crate::rng::{Rng, hash_bytes2, hash_str};
use crate::spec::exemplar;
use crate::spec::layout::{self, Gen, GenOptions};
use crate::spec::{self, Canon};
use crate::tok::{self, Token};
use serde::{Deserialize, Serialize};
use serde_json::{Value, json};

/// (family type, base number, documented option letters; "" = no letter)
pub const FAMILIES: &[(&str, &str, &[&str])] = &[
    ("Field25AccountIdentification", "25", &["", "P"]),
    ("Field32", "32", &["A", "B", "C", "D"]),
    ("Field32AB", "32", &["A", "B"]),
    ("Field32AmountCD", "32", &["C", "D"]),
    ("Field50InstructingParty", "50", &["C", "L"]),
    ("Field50OrderingCustomerFGH", "50", &["F", "G", "H"]),
    ("Field50OrderingCustomerAFK", "50", &["A", "F", "K"]),
    ("Field50OrderingCustomerNCF", "50", &["", "C", "F"]),
    ("Field50Creditor", "50", &["A", "K"]),
    ("Field52AccountServicingInstitution", "52", &["A", "C"]),
    ("Field52OrderingInstitution", "52", &["A", "D"]),
    ("Field52CreditorBank", "52", &["A", "C", "D"]),
    ("Field52DrawerBank", "52", &["A", "B", "D"]),
    ("Field53SenderCorrespondent", "53", &["A", "B", "D"]),
    ("Field54ReceiverCorrespondent", "54", &["A", "B", "D"]),
    ("Field55ThirdReimbursementInstitution", "55", &["A", "B", "D"]),
    ("Field56Intermediary", "56", &["A", "C", "D"]),
    ("Field56IntermediaryAD", "56", &["A", "D"]),
    ("Field57", "57", &["A", "B", "C", "D"]),
    ("Field57DebtInstitution", "57", &["A", "B", "D"]),
    ("Field58", "58", &["A", "D"]),
    ("Field59", "59", &["", "A", "F"]),
    ("Field59Debtor", "59", &["", "A"]),
    ("Field60", "60", &["F", "M"]),
    ("Field62", "62", &["F", "M"]),
];

const LETTERS: &[&str] = &["", "A", "B", "C", "D", "E", "F", "G", "H", "I", "J", "K", "L", "M", "N", "O", "P", "Q", "R", "S", "T", "U", "V", "W", "X", "Y", "Z"];

#[derive(Clone, Debug, Serialize, Deserialize)]
pub enum Case {
    Letter { family: String, letter: String, content: String },
    Heuristic { family: String, content: String },
    Position { mt: String, position: String, letter: String, text: String },
    /// a documented option at a documented position with content valid for that option; `alts` are
    /// the same message with another documented option of the same field number
    Documented { mt: String, num: String, opt: String, text: String, alts: Vec<String> },
}

fn v(l: &mut Local, who: &str, clause: &str, detail: &str, what: String, case: &Case) {
    l.violation(format!("C14|{who}|{clause}|{detail}"), what, || serde_json::to_value(case).unwrap());
}

fn fam(name: &str) -> &'static (&'static str, &'static str, &'static [&'static str]) {
    FAMILIES.iter().find(|f| f.0 == name).expect("family")
}

/// contents valid for at least one option of the base number, incl. ambiguous ones
fn contents_for(base: &str, k: usize) -> Vec<String> {
    let mut out = Vec::new();
    let all_opts: &[&str] = match base {
        "25" => &["", "P", "A"],
        "32" => &["A", "B", "C", "D"],
        "50" => &["", "A", "C", "F", "G", "H", "K", "L"],
        "52" => &["A", "B", "C", "D"],
        "53" | "54" | "55" => &["A", "B", "D"],
        "56" => &["A", "C", "D"],
        "57" => &["A", "B", "C", "D"],
        "58" => &["A", "D"],
        "59" => &["", "A", "F"],
        "60" | "62" => &["F", "M"],
        _ => &[],
    };
    for o in all_opts {
        for variant in 0..3 {
            out.push(exemplar::content("103", &format!("{base}{o}"), k + variant, variant));
        }
    }
    if matches!(base, "50" | "52" | "53" | "54" | "55" | "56" | "57" | "58" | "59" | "25") {
        for s in [
            "DEUTDEFF",                       // BIC-shaped single line
            "DEUTDEFFXXX",
            "/12345",                         // a single slash line
            "/D/12345",
            "/1/NAME",                        // looks like "1/..."
            "1/NAME",
            "/ACC\nDEUTDEFF",                 // account + BIC-shaped line (A, or D with a short name)
            "/ACC\nDEUTDEFFXXX",
            "/ACC\nNAMELINE",                 // 8 characters, letters only
            "/ACC\nNAMELINE123",              // 11 characters
            "NAMELINE\nDEUTDEFF",
            "/ACC\nNAME\nSTREET",
            "ACC123\nDEUTDEFF",               // 25P-like
            "/ACC",
        ] {
            out.push(s.to_string());
        }
    }
    out.sort();
    out.dedup();
    out
}

fn emitted_tag(s: &str) -> Option<String> {
    tok::split_swift_string(s).map(|x| x.0)
}

pub fn judge(_cfg: &Config, case: &Case, l: &mut Local) {
    match case {
        Case::Letter { family, letter, content } => {
            let (name, base, opts) = *fam(family);
            let ops = field(name).unwrap();
            let stratum = format!("letter:{name}");
            let r = guard(|| (ops.parse_variant)(content, Some(letter.as_str()), Some(base)));
            let Ok(r) = r else {
                l.eval(&stratum, "panic(C07)", false, 0);
                return;
            };
            match r {
                Err(_) => l.eval(&stratum, "rejected", true, hash_bytes2(name, content) ^ hash_str(letter)),
                Ok(val) => {
                    l.eval(&stratum, "accepted", true, hash_bytes2(name, content) ^ hash_str(letter));
                    let Ok(s) = guard(|| val.to_swift()) else { return };
                    let Some(tag) = emitted_tag(&s) else { return };
                    let want = format!("{base}{letter}");
                    if tag != want {
                        if opts.contains(&letter.as_str()) {
                            v(l, name, "documented-letter-overridden", &format!("{want}->{tag}"), format!("{name}: content parsed with option letter {letter:?} comes back as field {tag}"), case);
                        } else {
                            v(l, name, "foreign-letter-converted", "-", format!("{name}: a letter the family does not document ({letter:?}) is converted into field {tag} instead of rejected"), case);
                        }
                    } else if !opts.contains(&letter.as_str()) {
                        v(l, name, "undocumented-letter-accepted", &want, format!("{name}: accepts option letter {letter:?}, which it does not document"), case);
                    } else if let Ok(Ok(Value::Object(jm))) = guard(|| val.json())
                        && jm.len() == 1
                        && let Some(k) = jm.keys().next()
                        && tok::is_tag(k)
                        && *k != want
                    {
                        // in a message's JSON the variant sits under its key: a key that names another field would
                        // hand the value to that field when the message is read back
                        v(l, name, "json-key-names-another-field", &format!("{want}->{k}"), format!("{name}: the JSON of a value parsed as option {letter:?} is keyed {k:?}, not {want:?}"), case);
                    } else if let Ok(Ok(j)) = guard(|| val.json())
                        && let Ok(Ok(back)) = guard(|| (ops.from_json)(&j))
                        && let Ok(s2) = guard(|| back.to_swift())
                        && let Some(tag2) = emitted_tag(&s2)
                        && tag2 != want
                    {
                        // the JSON route must keep the option as well
                        v(l, name, "option-lost-through-json", &format!("{want}->{tag2}"), format!("{name}: a value parsed as option {letter:?} comes back from its own JSON as field {tag2}"), case);
                    }
                }
            }
        }
        Case::Heuristic { family, content } => {
            let (name, base, _opts) = *fam(family);
            let ops = field(name).unwrap();
            let stratum = format!("heuristic:{name}");
            let Ok(r) = guard(|| (ops.parse)(content)) else {
                l.eval(&stratum, "panic(C07)", false, 0);
                return;
            };
            match r {
                Err(_) => l.eval(&stratum, "rejected", true, hash_bytes2(name, content)),
                Ok(val) => {
                    l.eval(&stratum, "accepted", true, hash_bytes2(name, content));
                    let Ok(s) = guard(|| val.to_swift()) else { return };
                    let Some((tag, body)) = tok::split_swift_string(&s) else { return };
                    if &tag[..2] != base {
                        v(l, name, "heuristic-wrong-field", &tag, format!("{name}: heuristic parse returns a value of field {tag}"), case);
                        return;
                    }
                    // referee: the concrete parser of the returned option
                    if let Some(cops) = spec::field_type_for(&tag) {
                        if let Ok(Err(e)) = guard(|| (cops.parse)(content)) {
                            v(
                                l,
                                name,
                                "heuristic-variant-rejects-content",
                                &tag,
                                format!("{name}: parse without a letter returns option {tag}, whose own parser rejects the content: {}", e.to_string().chars().take(80).collect::<String>()),
                                case,
                            );
                            return;
                        }
                    }
                    let letter = tag[2..].to_string();
                    match guard(|| (ops.parse_variant)(&body, Some(letter.as_str()), Some(base))) {
                        Ok(Ok(v2)) => {
                            if v2.dbg() != val.dbg() {
                                v(l, name, "heuristic-not-stable", &tag, format!("{name}: re-parsing the serialisation of the heuristically chosen option {tag} with its letter gives a different value"), case);
                            }
                        }
                        Ok(Err(_)) => v(l, name, "heuristic-serialisation-rejected", &tag, format!("{name}: the serialisation of the heuristically chosen option {tag} is rejected when parsed with its letter"), case),
                        Err(_) => {}
                    }
                }
            }
        }
        Case::Documented { mt, num, opt, text, alts } => {
            let ops = crate::registry::msg(mt).unwrap();
            let stratum = format!("documented:MT{mt}");
            match guard(|| (ops.parse_b4)(text)) {
                Err(_) => l.eval(&stratum, "panic(C07)", false, 0),
                Ok(Err(e)) => {
                    l.eval(&stratum, "rejected", true, hash_bytes2(mt, text));
                    // attributable to the option only if the same message with another documented
                    // option of that field is accepted (a type that rejects all of them fails for another reason: C03)
                    let other_ok = alts.iter().any(|a| matches!(guard(|| (ops.parse_b4)(a)), Ok(Ok(_))));
                    if other_ok {
                        v(
                            l,
                            &format!("MT{mt}:{num}"),
                            "documented-option-rejected",
                            opt,
                            format!("MT{mt}: field {num}{opt} with content valid for option {opt:?} is rejected while the same message with another documented option of field {num}, or without that field, is accepted: {}", e.to_string().chars().take(100).collect::<String>()),
                            case,
                        );
                    }
                }
                Ok(Ok(m)) => {
                    l.eval(&stratum, "accepted", true, hash_bytes2(mt, text));
                    if let Ok(y) = guard(|| m.to_mt()) {
                        let tx: Vec<String> = tok::tokenize(text).fields.iter().map(|t| t.tag.clone()).collect();
                        let ty: Vec<String> = tok::tokenize(&y).fields.iter().map(|t| t.tag.clone()).collect();
                        if tx != ty {
                            let k = tx.iter().zip(&ty).position(|(a, b)| a != b).unwrap_or(tx.len().min(ty.len()));
                            let a = tx.get(k).cloned().unwrap_or("<end>".into());
                            let b = ty.get(k).cloned().unwrap_or("<end>".into());
                            v(l, &format!("MT{mt}:{num}"), "documented-option-not-preserved", &format!("{a}->{b}"), format!("MT{mt}: a message using the documented option {num}{opt} is accepted, the serialisation shows {b} where {a} was written"), case);
                        }
                    }
                }
            }
        }
        Case::Position { mt, position, letter, text } => {
            let ops = crate::registry::msg(mt).unwrap();
            let stratum = format!("position:MT{mt}");
            match guard(|| (ops.parse_b4)(text)) {
                Err(_) => l.eval(&stratum, "panic(C07)", false, 0),
                Ok(Err(_)) => l.eval(&stratum, "rejected", true, hash_bytes2(mt, text)),
                Ok(Ok(m)) => {
                    l.eval(&stratum, "accepted", true, hash_bytes2(mt, text));
                    if let Ok(y) = guard(|| m.to_mt()) {
                        let tx: Vec<String> = tok::tokenize(text).fields.iter().map(|t| t.tag.clone()).collect();
                        let ty: Vec<String> = tok::tokenize(&y).fields.iter().map(|t| t.tag.clone()).collect();
                        if tx != ty {
                            let k = tx.iter().zip(&ty).position(|(a, b)| a != b).unwrap_or(tx.len().min(ty.len()));
                            let a = tx.get(k).cloned().unwrap_or("<end>".into());
                            let b = ty.get(k).cloned().unwrap_or("<end>".into());
                            v(
                                l,
                                &format!("MT{mt}:{position}"),
                                "written-letter-not-preserved",
                                &format!("{a}->{b}"),
                                format!("MT{mt}: field written as {}{letter} at position {position} is accepted, the serialisation shows {b} where {a} was written", &position[..2]),
                                case,
                            );
                        }
                    }
                }
            }
        }
    }
}

pub fn run(cfg: &Config) -> i32 {
    let started = std::time::Instant::now();
    let mut cases: Vec<Case> = Vec::new();
    let rounds = cfg.tier.pick(2usize, 12usize);
    for (name, base, _) in FAMILIES {
        for round in 0..rounds {
            for c in contents_for(base, 10 + round * 7 + cfg.seed as usize) {
                for lt in LETTERS {
                    cases.push(Case::Letter { family: name.to_string(), letter: lt.to_string(), content: c.clone() });
                }
                cases.push(Case::Heuristic { family: name.to_string(), content: c });
            }
        }
    }
    // message positions: every letter at every multi-option position of a maximal generated message
    let layouts = layout::layouts();
    for lay in &layouts {
        for vi in 0..cfg.tier.pick(2u64, 10u64) {
            let mut r = Rng::new(cfg.seed, &format!("c14:{}", lay.mt), vi);
            let opt = GenOptions { optional_per_mille: 1000, max_repeat: 1, max_seq: 1, maximal: true, minimal: false };
            let mut g = Gen { r: &mut r, counter: vi as usize * 30, mt: lay.mt, opt, force_option: None, force_include: None };
            let gf = g.message(lay);
            let mut toks: Vec<Token> = Vec::new();
            let mut ok = true;
            for f in &gf {
                match spec::canonical(&f.tag, &f.content) {
                    Canon::Ok(c) => toks.push(Token { tag: f.tag.clone(), content: c }),
                    _ => ok = false,
                }
            }
            if !ok {
                continue;
            }
            if lay.mt == "204" && toks.len() >= 2 && toks[1].tag == "19" {
                toks.swap(0, 1);
            }
            for (i, t) in toks.iter().enumerate() {
                let base = &t.tag[..2];
                if !matches!(base, "25" | "32" | "50" | "52" | "53" | "54" | "55" | "56" | "57" | "58" | "59" | "60" | "62") {
                    continue;
                }
                for lt in LETTERS {
                    if *lt == &t.tag[2..] {
                        continue;
                    }
                    let mut fs = toks.clone();
                    fs[i].tag = format!("{base}{lt}");
                    cases.push(Case::Position { mt: lay.mt.to_string(), position: format!("{}#{}", base, i), letter: lt.to_string(), text: tok::render(&fs, false, false) });
                }
            }
        }
    }
    // documented options at their documented positions (content valid for the option)
    for lay in &layouts {
        let pairs = layout::option_pairs(lay);
        for vi in 0..cfg.tier.pick(3u64, 12u64) {
            let mut texts: std::collections::BTreeMap<(String, String, bool), String> = Default::default();
            for (num, opt) in &pairs {
                for maximal in [false, true] {
                    let mut r = Rng::new(cfg.seed, &format!("c14-doc:{}", lay.mt), vi);
                    let gopt = GenOptions { optional_per_mille: 400, max_repeat: 2, max_seq: 2, maximal, minimal: false };
                    let mut g = Gen { r: &mut r, counter: vi as usize * 40, mt: lay.mt, opt: gopt, force_option: Some((num.clone(), opt.clone())), force_include: Some(num.clone()) };
                    let gf = g.message(lay);
                    let mut toks: Vec<Token> = Vec::new();
                    let mut ok = true;
                    for f in &gf {
                        match spec::canonical(&f.tag, &f.content) {
                            Canon::Ok(c) => toks.push(Token { tag: f.tag.clone(), content: c }),
                            _ => ok = false,
                        }
                    }
                    if ok {
                        texts.insert((num.clone(), opt.clone(), maximal), tok::render(&toks, false, false));
                    }
                }
            }
            for ((num, opt, maximal), text) in &texts {
                let mut alts: Vec<String> = texts.iter().filter(|((n2, o2, m2), _)| n2 == num && o2 != opt && m2 == maximal).map(|(_, t)| t.clone()).collect();
                // and the same message without the fields written with this option (decides when the field is optional)
                let tag = format!("{num}{opt}");
                let toks = tok::tokenize(text).fields;
                if toks.iter().any(|t| t.tag == tag) {
                    let rest: Vec<Token> = toks.into_iter().filter(|t| t.tag != tag).collect();
                    alts.push(tok::render(&rest, false, false));
                }
                cases.push(Case::Documented { mt: lay.mt.to_string(), num: num.clone(), opt: opt.clone(), text: text.clone(), alts });
            }
        }
    }
    let n = cases.len() as u64;
    let total = par_for(cfg, n, |i, l| {
        let case = &cases[i as usize];
        let lab = match case {
            Case::Letter { family, .. } => format!("letter:{family}"),
            Case::Heuristic { family, .. } => format!("heuristic:{family}"),
            Case::Position { mt, .. } => format!("position:MT{mt}"),
            Case::Documented { mt, .. } => format!("documented:MT{mt}"),
        };
        if l.want_sample(&lab) {
            l.sample(&lab, serde_json::to_value(case).unwrap());
        }
        judge(cfg, case, l);
    });
    let mut rep = Report::default();
    rep.rule = "cases = 25 multi-option families x 27 letters (A-Z and none) x contents valid for at least one option of the field number (three exemplar spellings per option plus 14 deliberately ambiguous contents), the letter-less heuristic parse of the same contents, and every letter at every multi-option position of maximal generated messages of all 30 types. Non-trivial = the parser reached a verdict; distinct = distinct (family or type, letter, content) digests".into();
    rep.assumptions = vec!["documented options per family are restated in FAMILIES from the enum definitions' documentation".into(), "the library's concrete per-option parsers are used as referees for the heuristic clause".into()];
    rep.required_strata = FAMILIES.iter().map(|f| format!("letter:{}", f.0)).chain(FAMILIES.iter().map(|f| format!("heuristic:{}", f.0))).collect();
    rep.min_evals = 1000;
    let _ = json!(null);
    finish(cfg, started, total, rep)
}

pub fn replay(cfg: &Config, case: &Value) -> Local {
    let mut l = Local::default();
    let c: Case = serde_json::from_value(case.clone()).expect("C14 case");
    judge(cfg, &c, &mut l);
    l
}
