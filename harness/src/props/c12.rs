//! C12 — Message-type dispatch is consistent across every entry point.
//!
//! Metamorphic agreement with the typed API plus two fixed expectations (T03 for a typed parse
//! as another type, "unsupported" for codes outside the 30). Exhaustive over 30x30 typed pairs
//! and all codes 000-999 in both tiers; thorough uses more base messages per type.
//! Key: `C12|<entry point>|<announced code or class>|<clause>`.

use crate::corpus::Corpus;
use crate::jsonu::first_diff;
use crate::monitor::*;
use crate::registry::{MESSAGES, msg};
use crate::rng::hash_bytes2;
use crate::tok;
use serde::{Deserialize, Serialize};
use serde_json::{Value, json};
use swift_mt_message::SwiftParser;
use swift_mt_message::errors::ParseError;

#[derive(Clone, Debug, Serialize, Deserialize)]
pub enum Case {
    /// genuine message of type `announced` parsed as `requested`
    Typed { announced: String, requested: String, text: String },
    /// message whose header announces `code` (body of some supported type) through all entry points
    Code { code: String, text: String },
}

/// Replace the three-digit type in block 2 (position 1..4 for both I and O headers)
pub fn with_code(text: &str, code: &str) -> Option<String> {
    let start = text.find("{2:")? + 3;
    let dir = text.get(start..start + 1)?;
    if dir != "I" && dir != "O" {
        return None;
    }
    let mut s = String::with_capacity(text.len());
    s.push_str(&text[..start + 1]);
    s.push_str(code);
    s.push_str(text.get(start + 4..)?);
    Some(s)
}

fn v(l: &mut Local, entry: &str, who: &str, clause: &str, what: String, case: &Case) {
    l.violation(format!("C12|{entry}|{who}|{clause}"), what, || serde_json::to_value(case).unwrap());
}

fn strip_mt_type(mut j: Value) -> Value {
    if let Some(o) = j.as_object_mut() {
        o.remove("mt_type");
    }
    j
}

pub fn judge(_cfg: &Config, case: &Case, l: &mut Local) {
    match case {
        Case::Typed { announced, requested, text } => {
            let ops = msg(requested).unwrap();
            // the error-collecting variant of the typed parse: never a message of another type, and on the
            // diagonal the same message as the plain typed parse
            if let Ok(we) = guard(|| (ops.parse_full_with_errors)(text)) {
                match &we {
                    Ok(m) if announced != requested => v(
                        l,
                        "parse_with_errors::<T>",
                        requested,
                        "accepted-other-type",
                        format!("parse_with_errors as MT{requested} returned a message (type {}) for a text announcing MT{announced}", m.message_type()),
                        case,
                    ),
                    Ok(m) => {
                        if let Ok(Ok(p)) = guard(|| (ops.parse_full)(text))
                            && let (Ok(a), Ok(b)) = (m.json(), p.json())
                            && let Some(d) = first_diff(&a, &b)
                        {
                            v(l, "parse_with_errors::<T>", requested, "differs-from-typed", format!("MT{requested}: parse_with_errors and parse give different messages at {d}"), case);
                        }
                    }
                    Err(_) => {
                        if announced == requested
                            && let Ok(Ok(_)) = guard(|| (ops.parse_full)(text))
                        {
                            v(l, "parse_with_errors::<T>", requested, "rejects-what-parse-accepts", format!("MT{requested}: parse_with_errors fails on a message parse::<T> accepts"), case);
                        }
                    }
                }
            }
            let r = guard(|| (ops.parse_full)(text));
            let stratum = if announced == requested { "typed:diagonal" } else { "typed:off-diagonal" };
            match r {
                Err(_) => l.eval(stratum, "panic(C07)", false, 0),
                Ok(Ok(m)) => {
                    l.eval(stratum, "ok", true, hash_bytes2(requested, text));
                    if announced != requested {
                        v(
                            l,
                            "parse::<T>",
                            requested,
                            "accepted-other-type",
                            format!("typed parse as MT{requested} accepted a message announcing MT{announced}"),
                            case,
                        );
                    } else if m.message_type() != *announced || (ops.type_code)() != announced {
                        v(
                            l,
                            "parse::<T>",
                            requested,
                            "type-identifier",
                            format!("MT{requested}: message_type of the parsed message / of the type is not {announced}"),
                            case,
                        );
                    }
                }
                Ok(Err(e)) => {
                    l.eval(stratum, "err", true, hash_bytes2(requested, text));
                    if announced != requested {
                        let is_t03 = matches!(&e, ParseError::SwiftValidation(sv) if sv.error_code() == "T03");
                        if !is_t03 {
                            v(
                                l,
                                "parse::<T>",
                                requested,
                                "not-a-mismatch-error",
                                format!(
                                    "typed parse as MT{requested} of a message announcing MT{announced} fails with something other than the T03 mismatch error: {}",
                                    e.to_string().chars().take(80).collect::<String>()
                                ),
                                case,
                            );
                        }
                    } else {
                        l.inconclusive("diagonal-base-rejected");
                    }
                }
            }
        }
        Case::Code { code, text } => {
            let supported = msg(code);
            let auto = guard(|| SwiftParser::parse_auto(text));
            let plug_parse = guard(|| crate::plug::parse_mt(text));
            let plug_val = guard(|| crate::plug::validate_mt(text));
            let (Ok(auto), Ok(plug_parse), Ok(plug_val)) = (auto, plug_parse, plug_val) else {
                l.eval("code:any", "panic(C07)", false, 0);
                return;
            };
            match supported {
                None => {
                    l.eval("code:unsupported", "judged", true, hash_bytes2(code, text));
                    match &auto {
                        Err(ParseError::UnsupportedMessageType { message_type }) if message_type == code => {}
                        Ok(p) => v(
                            l,
                            "parse_auto",
                            "unsupported",
                            "parsed-as-some-type",
                            format!("parse_auto parsed unsupported code {code} as MT{}", p.message_type()),
                            case,
                        ),
                        Err(e) => v(
                            l,
                            "parse_auto",
                            "unsupported",
                            "other-error",
                            format!("parse_auto on unsupported code reports {} instead of UnsupportedMessageType", short(&e.to_string())),
                            case,
                        ),
                    }
                    match &plug_parse {
                        Err(e) if e.contains("Unsupported") => {}
                        Ok((_, _)) => v(l, "plugin-parse", "unsupported", "parsed-as-some-type", format!("parse plugin accepted unsupported code {code}"), case),
                        Err(e) => v(l, "plugin-parse", "unsupported", "other-error", format!("parse plugin: {}", short(e)), case),
                    }
                    match &plug_val {
                        Ok(j) => {
                            let valid = j["valid"].as_bool().unwrap_or(true);
                            let mentions = j["errors"].to_string().contains("Unsupported");
                            if valid || !mentions {
                                v(
                                    l,
                                    "plugin-validate",
                                    "unsupported",
                                    "not-reported-unsupported",
                                    format!("validate plugin on unsupported code: valid={valid}, errors={}", short(&j["errors"].to_string())),
                                    case,
                                );
                            }
                        }
                        Err(e) => {
                            if !e.contains("Unsupported") {
                                v(l, "plugin-validate", "unsupported", "other-error", format!("validate plugin: {}", short(e)), case)
                            }
                        }
                    }
                    for spelling in [code.clone(), format!("MT{code}")] {
                        let pj = json!({"message_type": spelling, "fields": {}});
                        match guard(|| crate::plug::publish_json(&pj)) {
                            Ok(Err(e)) if e.contains("Unsupported") => {}
                            Ok(Ok(_)) => v(l, "plugin-publish", "unsupported", "published-as-some-type", format!("publish accepted unsupported type {spelling}"), case),
                            Ok(Err(e)) => v(l, "plugin-publish", "unsupported", "other-error", format!("publish: {}", short(&e)), case),
                            Err(_) => {}
                        }
                    }
                }
                Some(ops) => {
                    let typed = match guard(|| (ops.parse_full)(text)) {
                        Ok(t) => t,
                        Err(_) => {
                            l.eval("code:supported", "panic(C07)", false, 0);
                            return;
                        }
                    };
                    l.eval(
                        "code:supported",
                        if typed.is_ok() { "typed-ok" } else { "typed-err" },
                        true,
                        hash_bytes2(code, text),
                    );
                    // the wrapper's classification predicates dispatch on the body type: with no user reference in
                    // block 3 they must answer what the body's own predicates answer
                    if !text.contains("{108:") {
                        use swift_mt_message::messages::{MT103, MT202, MT205};
                        let mut diffs: Vec<String> = Vec::new();
                        match code.as_str() {
                            "103" => {
                                if let Ok(Ok(m)) = guard(|| SwiftParser::parse::<MT103>(text)) {
                                    for (n, w, b) in [("has_reject_codes", m.has_reject_codes(), m.fields.has_reject_codes()), ("has_return_codes", m.has_return_codes(), m.fields.has_return_codes()), ("is_stp_message", m.is_stp_message(), m.fields.is_stp_compliant())] {
                                        if w != b {
                                            diffs.push(format!("{n}: wrapper {w}, body {b}"));
                                        }
                                    }
                                }
                            }
                            "202" => {
                                if let Ok(Ok(m)) = guard(|| SwiftParser::parse::<MT202>(text)) {
                                    for (n, w, b) in [("has_reject_codes", m.has_reject_codes(), m.fields.has_reject_codes()), ("has_return_codes", m.has_return_codes(), m.fields.has_return_codes()), ("is_cover_message", m.is_cover_message(), m.fields.is_cover_message())] {
                                        if w != b {
                                            diffs.push(format!("{n}: wrapper {w}, body {b}"));
                                        }
                                    }
                                }
                            }
                            "205" => {
                                if let Ok(Ok(m)) = guard(|| SwiftParser::parse::<MT205>(text)) {
                                    for (n, w, b) in [("has_reject_codes", m.has_reject_codes(), m.fields.has_reject_codes()), ("has_return_codes", m.has_return_codes(), m.fields.has_return_codes()), ("is_cover_message", m.is_cover_message(), m.fields.is_cover_message())] {
                                        if w != b {
                                            diffs.push(format!("{n}: wrapper {w}, body {b}"));
                                        }
                                    }
                                }
                            }
                            _ => {}
                        }
                        for d in diffs {
                            v(l, "SwiftMessage-predicates", code, &format!("differs-from-body:{}", d.split(':').next().unwrap_or("")), format!("MT{code}: {d}"), case);
                        }
                    }
                    // the full-message route and the text-block route of the same typed API: what one takes the
                    // other takes, with the same fields (an input normalisation on one route only shows here)
                    if let Some(b4) = crate::corpus::block4_of(text)
                        && let Ok(pb) = guard(|| (ops.parse_b4)(&b4))
                    {
                        match (&typed, &pb) {
                            (Ok(t), Ok(b)) => {
                                if let (Ok(Ok(jt)), Ok(Ok(jb))) = (guard(|| t.body().json()), guard(|| b.json()))
                                    && let Some(d) = first_diff(&jt, &jb)
                                {
                                    v(l, "parse::<T>", code, "full-route-differs-from-block4-route", format!("parse::<MT{code}>(message) and MT{code}::parse_from_block4(its text block) build different fields at {d}"), case);
                                }
                            }
                            (Ok(_), Err(e)) => v(l, "parse::<T>", code, "full-route-accepts-what-block4-route-rejects", format!("parse::<MT{code}>(message) accepts a text block that parse_from_block4 rejects: {}", short(&e.to_string())), case),
                            (Err(e), Ok(_)) if matches!(e, ParseError::InvalidFieldFormat(_) | ParseError::MissingRequiredField { .. }) => v(l, "parse::<T>", code, "full-route-rejects-what-block4-route-accepts", format!("parse::<MT{code}>(message) rejects a text block that parse_from_block4 accepts: {}", short(&e.to_string())), case),
                            _ => {}
                        }
                    }
                    match (&typed, &auto) {
                        (Ok(t), Ok(a)) => {
                            // the typed accessors of the wrapper: exactly the one of the announced type answers
                            if let Ok(acc) = guard(|| crate::registry::accessors(a)) {
                                for (c, as_some, into_some) in acc {
                                    if as_some != (c == code.as_str()) || into_some != (c == code.as_str()) {
                                        v(l, "ParsedSwiftMessage::as/into", code, "accessor-disagrees", format!("announced {code}: as_mt{c} is_some={as_some}, into_mt{c} is_some={into_some}"), case);
                                    }
                                }
                            }
                            if a.message_type() != code {
                                v(l, "parse_auto", code, "wrong-type", format!("parse_auto reports type {} for announced {code}", a.message_type()), case);
                            }
                            let ja = strip_mt_type(serde_json::to_value(a).unwrap_or(Value::Null));
                            let jt = t.json().unwrap_or(Value::Null);
                            if let Some(d) = first_diff(&ja, &jt) {
                                v(l, "parse_auto", code, "differs-from-typed", format!("parse_auto result differs from parse::<MT{code}> at {d}"), case);
                            }
                            let va = guard(|| a.validate());
                            let vt = guard(|| t.validate());
                            if let (Ok(va), Ok(vt)) = (&va, &vt)
                                && (va.is_valid != vt.is_valid || va.errors.len() != vt.errors.len())
                            {
                                v(l, "ParsedSwiftMessage::validate", code, "differs-from-typed", format!("wrapper validate differs from typed validate for MT{code}"), case);
                            }
                            // both adapters against the typed API itself (the body's own full list)
                            if let (Ok(va), Ok(errs)) = (&va, guard(|| t.body().validate(false)))
                                && (va.is_valid != errs.is_empty() || va.errors.len() != errs.len())
                            {
                                v(l, "ParsedSwiftMessage::validate", code, "differs-from-typed-full-list", format!("auto-detected validate reports {} errors (valid={}), MT{code}::validate_network_rules(false) reports {}", va.errors.len(), va.is_valid, errs.len()), case);
                            }
                        }
                        (Err(_), Err(_)) => {}
                        (Ok(_), Err(e)) => v(l, "parse_auto", code, "rejects-what-typed-accepts", format!("parse_auto: {}", short(&e.to_string())), case),
                        (Err(e), Ok(a)) => v(
                            l,
                            "parse_auto",
                            code,
                            "accepts-what-typed-rejects",
                            format!("parse_auto parsed as MT{} what parse::<MT{code}> rejects: {}", a.message_type(), short(&e.to_string())),
                            case,
                        ),
                    }
                    // MTnnn::parse(input), where the type offers it: same body as the typed parse, from the full
                    // text and from the bare text block
                    if let Ok(Some(r)) = guard(|| crate::registry::inherent_parse(code, text)) {
                        match (&typed, &r) {
                            (Ok(t), Ok(j)) => {
                                if let Ok(Ok(jb)) = guard(|| t.body().json())
                                    && let Some(d) = first_diff(j, &jb)
                                {
                                    v(l, "MTnnn::parse", code, "differs-from-typed", format!("MT{code}::parse(full text) differs from the typed parse at {d}"), case);
                                }
                            }
                            (Ok(_), Err(e)) => v(l, "MTnnn::parse", code, "rejects-what-typed-accepts", format!("MT{code}::parse: {}", short(e)), case),
                            _ => {}
                        }
                        if let Some(b4) = crate::corpus::block4_of(text)
                            && let Ok(Some(rb)) = guard(|| crate::registry::inherent_parse(code, &b4))
                            && let Ok(pb) = guard(|| (ops.parse_b4)(&b4))
                        {
                            let same = match (&rb, &pb) {
                                (Ok(a), Ok(b)) => b.json().ok().as_ref() == Some(a),
                                (Err(_), Err(_)) => true,
                                _ => false,
                            };
                            if !same {
                                v(l, "MTnnn::parse", code, "block4-route-differs", format!("MT{code}::parse(text block) and parse_from_block4 disagree"), case);
                            }
                        }
                    }
                    match (&typed, &plug_parse) {
                        (Ok(t), Ok((j, _method))) => {
                            let jt = t.json().unwrap_or(Value::Null);
                            if let Some(d) = first_diff(j, &jt) {
                                v(l, "plugin-parse", code, "differs-from-typed", format!("parse plugin JSON differs from typed JSON at {d}"), case);
                            }
                        }
                        (Err(_), Err(_)) => {}
                        (Ok(_), Err(e)) => v(l, "plugin-parse", code, "rejects-what-typed-accepts", format!("parse plugin: {}", short(e)), case),
                        (Err(_), Ok(_)) => v(l, "plugin-parse", code, "accepts-what-typed-rejects", format!("parse plugin accepted what parse::<MT{code}> rejects"), case),
                    }
                    if let Ok(j) = &plug_val {
                        match &typed {
                            Ok(t) => {
                                if j["message_type"].as_str() != Some(code.as_str()) {
                                    v(l, "plugin-validate", code, "wrong-type", format!("validate plugin reports message_type {} for announced {code}", j["message_type"]), case);
                                }
                                if let Ok(errs) = guard(|| t.body().validate(false)) {
                                    let n = j["errors"].as_array().map(|a| a.len()).unwrap_or(0);
                                    let valid = j["valid"].as_bool().unwrap_or(false);
                                    if n != errs.len() || valid != errs.is_empty() {
                                        v(
                                            l,
                                            "plugin-validate",
                                            code,
                                            "differs-from-typed",
                                            format!("validate plugin reports {n} errors / valid={valid}, typed validation reports {}", errs.len()),
                                            case,
                                        );
                                    }
                                }
                            }
                            Err(_) => {
                                if j["valid"].as_bool().unwrap_or(true) {
                                    v(l, "plugin-validate", code, "valid-though-unparseable", format!("validate plugin says valid for a text parse::<MT{code}> rejects"), case);
                                }
                            }
                        }
                    }
                    if let Ok(t) = &typed
                        && let Ok(jt) = t.json()
                        && let Ok(direct) = guard(|| t.to_mt_message())
                    {
                        for spelling in [code.clone(), format!("MT{code}")] {
                            let mut pj = jt.clone();
                            pj["message_type"] = json!(spelling);
                            match guard(|| crate::plug::publish_json(&pj)) {
                                Ok(Ok(mt)) => {
                                    if mt != direct {
                                        v(l, "plugin-publish", code, "differs-from-typed", format!("publish of MT{code} JSON differs from to_mt_message"), case);
                                    }
                                }
                                Ok(Err(e)) => v(l, "plugin-publish", code, "rejects-own-json", format!("publish: {}", short(&e)), case),
                                Err(_) => {}
                            }
                        }
                    }
                }
            }
        }
    }
}

fn short(s: &str) -> String {
    s.chars().take(100).collect::<String>().replace('\n', "\\n")
}

pub fn run(cfg: &Config) -> i32 {
    let started = std::time::Instant::now();
    let c = Corpus::load(&cfg.verif_dir);
    let per_type = cfg.tier.pick(8usize, 20usize);
    let mut cases: Vec<Case> = Vec::new();
    let mut bases: Vec<(String, String)> = Vec::new();
    for m in MESSAGES {
        let es = c.of_type(m.code);
        let n = es.len();
        for k in 0..per_type.min(n) {
            let e = es[(k * 7 + cfg.seed as usize) % n];
            bases.push((m.code.to_string(), e.text.clone()));
            // an output-direction variant of the same message
        }
    }
    // generated maximal / random well-formed messages per type (every option, every optional field):
    // JSON shapes of sibling types differ only in rarely used fields, which the corpus may lack
    {
        use crate::spec::layout::{self, Gen, GenOptions};
        let mut first_env: std::collections::HashMap<String, (String, String)> = Default::default();
        for (mt, text) in &bases {
            if let Some(b4) = crate::corpus::block4_of(text)
                && let Some(i) = text.find(b4.as_str())
            {
                first_env.entry(mt.clone()).or_insert((text[..i].to_string(), text[i + b4.len()..].to_string()));
            }
        }
        for lay in layout::layouts() {
            for vi in 0..cfg.tier.pick(6u64, 30u64) {
                let mut r = crate::rng::Rng::new(cfg.seed, &format!("c12:{}", lay.mt), vi);
                let opt = GenOptions { optional_per_mille: 800, max_repeat: 2, max_seq: 2, maximal: vi % 2 == 0, minimal: false };
                let mut g = Gen { r: &mut r, counter: vi as usize * 40, mt: lay.mt, opt, force_option: None, force_include: None };
                let mut sink = Local::default();
                let Some(mut w) = super::c03::build(&lay, &mut g, &mut sink, "c12") else { continue };
                if lay.mt == "204" && w.fields.len() >= 2 && w.fields[1].tag == "19" {
                    w.fields.swap(0, 1);
                }
                let Some((pre, post)) = first_env.get(lay.mt) else { continue };
                let toks: Vec<tok::Token> = w.fields.iter().map(|f| tok::Token { tag: f.tag.clone(), content: f.content.clone() }).collect();
                bases.push((lay.mt.to_string(), format!("{pre}\n{}\n{post}", tok::render(&toks, false, false))));
            }
        }
    }
    // 30 x 30 typed matrix
    for (a, text) in &bases {
        for r in MESSAGES {
            cases.push(Case::Typed {
                announced: a.clone(),
                requested: r.code.to_string(),
                text: text.clone(),
            });
        }
    }
    // all codes 000-999: body of own type when supported, and body of a rotating other type
    for code in 0..1000u32 {
        let code = format!("{code:03}");
        let own: Vec<&(String, String)> = bases.iter().filter(|(a, _)| *a == code).collect();
        for (_, t) in &own {
            cases.push(Case::Code { code: code.clone(), text: t.clone() });
        }
        let k = (code.parse::<usize>().unwrap() * 13 + cfg.seed as usize) % bases.len();
        for j in 0..cfg.tier.pick(6, 40) {
            let (_, t) = &bases[(k + j * 31) % bases.len()];
            if let Some(x) = with_code(t, &code) {
                cases.push(Case::Code { code: code.clone(), text: x });
            }
        }
    }
    // rule-violating messages (sweep points of the C04 enumeration, through their MT text in an envelope of
    // the type): every entry point must dispatch them to the same type's rules as the typed API does
    {
        let mut env: std::collections::BTreeMap<String, (String, String)> = Default::default();
        for (mt, text) in &bases {
            if let Some(b4) = crate::corpus::block4_of(text)
                && let Some(i) = text.find(b4.as_str())
            {
                env.entry(mt.clone()).or_insert((text[..i].to_string(), text[i + b4.len()..].to_string()));
            }
        }
        for (mt, body) in crate::props::c04::sweep_bodies(cfg.tier.pick(25usize, 400usize)) {
            let Some(ops) = msg(&mt) else { continue };
            let Some((pre, post)) = env.get(&mt) else { continue };
            if let Ok(Ok(b)) = guard(|| (ops.body_from_json)(&body))
                && let Ok(t) = guard(|| b.to_mt())
            {
                cases.push(Case::Code { code: mt.clone(), text: format!("{pre}\n{}\n{post}", t.trim_end_matches(['\r', '\n'])) });
            }
        }
    }
    // long messages: every type with a repeating sequence at 5, 40 and 150 occurrences (a few hundred bytes to
    // tens of thousands): size must not change which entry point accepts a message
    {
        use crate::spec::layout::{self, Gen, GenOptions};
        let first_env2: std::collections::BTreeMap<String, (String, String)> = bases.iter().filter_map(|(mt, text)| {
            let b4 = crate::corpus::block4_of(text)?;
            let i = text.find(b4.as_str())?;
            Some((mt.clone(), (text[..i].to_string(), text[i + b4.len()..].to_string())))
        }).collect();
        for lay in layout::layouts() {
            for (vi, max_seq) in [(0u64, 40usize), (1, 150), (2, 150), (3, 400)] {
                let mut r = crate::rng::Rng::new(cfg.seed, &format!("c12-long:{}", lay.mt), vi);
                // (the generator draws the occurrence count between the minimum and max_seq)
                let opt = GenOptions { optional_per_mille: 900, max_repeat: 3, max_seq, maximal: false, minimal: false };
                let mut g = Gen { r: &mut r, counter: 3, mt: lay.mt, opt, force_option: None, force_include: None };
                let mut sink = Local::default();
                let Some(mut w) = super::c03::build(&lay, &mut g, &mut sink, "c12-long") else { continue };
                if lay.mt == "204" && w.fields.len() >= 2 && w.fields[1].tag == "19" {
                    w.fields.swap(0, 1);
                }
                let Some((pre, post)) = first_env2.get(lay.mt) else { continue };
                let toks: Vec<tok::Token> = w.fields.iter().map(|f| tok::Token { tag: f.tag.clone(), content: f.content.clone() }).collect();
                let text = format!("{pre}\n{}\n{post}", tok::render(&toks, false, false));
                // only messages the typed parser takes (documented repetition caps reject the longest ones)
                if std::env::var("VERIF_DEBUG").is_ok() {
                    eprintln!("c12-long MT{} max_seq={max_seq}/{vi} len={} accepted={:?}", lay.mt, text.len(), msg(lay.mt).map(|o| (o.parse_full)(&text).map(|_| ()).map_err(|e| e.to_string().chars().take(80).collect::<String>())));
                }
                if let Some(ops) = msg(lay.mt)
                    && matches!(guard(|| (ops.parse_full)(&text)), Ok(Ok(_)))
                {
                    cases.push(Case::Code { code: lay.mt.to_string(), text });
                }
            }
        }
    }
    // code-word bodies for the three types with classification predicates (field 72 rewritten)
    for (mt, text) in bases.iter().filter(|b| matches!(b.0.as_str(), "103" | "202" | "205")) {
        for f72 in ["/RETN/AC04", "/REJT/AC01", "/COV/COVER", "/INS/BANK\n/RETN/AC04", "/REJT/AC01\n/RETN/AC04"] {
            if let Some(t) = super::c17::rewrite(text, Some(f72), None, None) {
                cases.push(Case::Code { code: mt.clone(), text: t });
            }
        }
    }
    // hostile bodies: structural mutants of the first base of each type (terminator look-alikes, empty and
    // blank lines inside a value, duplicated / deleted / moved fields) inside the valid envelope
    {
        let contents = crate::corpus::field_contents(&c);
        let pool = crate::mutate::pool_from(&contents);
        let mut seen = std::collections::BTreeSet::new();
        for (mt, text) in &bases {
            if !seen.insert(mt.clone()) {
                continue;
            }
            let Some(b4) = crate::corpus::block4_of(text) else { continue };
            let toks = tok::tokenize(&b4).fields;
            let mut r = crate::rng::Rng::new(cfg.seed, &format!("c12-mut:{mt}"), 0);
            for m in crate::mutate::single_mutations(&toks, &pool, &mut r, false).into_iter().filter(|m| m.kind.ends_with("-inside") || m.kind.starts_with("ends-with") || m.kind == "duplicate" || m.kind == "delete") {
                let nb4 = format!("\n{}\n", tok::render(&m.fields, false, false));
                cases.push(Case::Code { code: mt.clone(), text: text.replacen(b4.as_str(), &nb4, 1) });
            }
        }
    }
    let n = cases.len() as u64;
    let total = par_for(cfg, n, |i, l| {
        let case = &cases[i as usize];
        let lab = match case {
            Case::Typed { announced, requested, .. } => {
                if announced == requested {
                    "typed:diagonal"
                } else {
                    "typed:off-diagonal"
                }
            }
            Case::Code { code, .. } => {
                if msg(code).is_some() {
                    "code:supported"
                } else {
                    "code:unsupported"
                }
            }
        };
        if l.want_sample(lab) {
            l.sample(lab, serde_json::to_value(case).unwrap());
        }
        judge(cfg, case, l);
    });
    let mut rep = Report::default();
    rep.exhaustive = true;
    rep.rule = "exhaustive over the 30x30 (announced, requested) typed matrix and over all codes 000-999 (own-type body where supported plus bodies of other types with the header rewritten), each code through parse_auto, typed parse, parse/validate/publish plugins; non-trivial = every case (a parser ran and its result was compared); distinct = distinct (code, text) digests".into();
    rep.assumptions = vec![
        "corpus messages are valid for their own type (a rejected diagonal base is counted inconclusive, not a violation)".into(),
        "exhaustive refers to the code/pair dimensions; bodies are sampled from the corpus".into(),
    ];
    rep.required_strata = vec!["typed:diagonal".into(), "typed:off-diagonal".into(), "code:supported".into(), "code:unsupported".into()];
    rep.min_evals = 1000;
    finish(cfg, started, total, rep)
}

pub fn replay(cfg: &Config, case: &Value) -> Local {
    let mut l = Local::default();
    let c: Case = serde_json::from_value(case.clone()).expect("C12 case");
    judge(cfg, &c, &mut l);
    l
}
