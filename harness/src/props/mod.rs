pub mod c01;
pub mod c02;
pub mod c03;
pub mod c04;
pub mod c05;
pub mod c06;
pub mod c07;
pub mod c08;
pub mod c09;
pub mod c10;
pub mod c11;
pub mod c12;
pub mod c13;
pub mod c14;
pub mod c15;
pub mod c16;
pub mod c17;

use crate::monitor::{Config, Local};
use serde_json::Value;

pub type RunFn = fn(&Config) -> i32;
pub type ReplayFn = fn(&Config, &Value) -> Local;

pub fn dispatch(prop: &str) -> Option<(RunFn, ReplayFn)> {
    Some(match prop {
        "C01" => (c01::run, c01::replay),
        "C02" => (c02::run, c02::replay),
        "C03" => (c03::run, c03::replay),
        "C04" => (c04::run, c04::replay),
        "C05" => (c05::run, c05::replay),
        "C06" => (c06::run, c06::replay),
        "C07" => (c07::run, c07::replay),
        "C08" => (c08::run, c08::replay),
        "C09" => (c09::run, c09::replay),
        "C10" => (c10::run, c10::replay),
        "C11" => (c11::run, c11::replay),
        "C12" => (c12::run, c12::replay),
        "C13" => (c13::run, c13::replay),
        "C14" => (c14::run, c14::replay),
        "C15" => (c15::run, c15::replay),
        "C16" => (c16::run, c16::replay),
        "C17" => (c17::run, c17::replay),
        _ => return None,
    })
}
