pub mod c02;
pub mod c07;
