pub mod c07;
