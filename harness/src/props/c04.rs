//! C04 — Network validation reports exactly the documented SR2025 rule violations.
//!
//! Reference: per message type an independent restatement of the documented rules as predicates
//! over an *abstract message* (presence flags, code values, currencies, amounts, counts) — the
//! enumerator chooses an abstract point, renders it by JSON surgery on a valid message of the
//! type (keys are the field tags), reads it back through serde and compares the set of error
//! codes of `validate_network_rules(false)` with the set the reference predicts, code by code,
//! for every modelled code. Codes the model does not restate are not judged, except for types
//! that document no rule at all, where any reported code is a violation. Every message is also
//! passed through the C13 coherence judge (stop-on-first prefix, wrappers, repeatability).
//! Enumeration: exhaustive product when small enough, otherwise all one- and two-dimensional
//! sweeps around the rule-clean baseline plus seeded random points.
//! Key: `C04|MT<type>|<code>|<missing|spurious>`.

use crate::corpus::Corpus;
use crate::monitor::*;
use crate::registry::{field, msg};
use crate::rng::{Rng, hash_str};
use serde::{Deserialize, Serialize};
use serde_json::{Value, json};
use std::collections::BTreeSet;

#[derive(Clone, Debug, Serialize, Deserialize)]
pub struct Case {
    pub mt: String,
    /// chosen label per dimension (documentation of the abstract point)
    pub point: Vec<String>,
    /// body JSON as rendered
    pub body: Value,
    pub expected: Vec<String>,
    pub modelled: Vec<String>,
}

fn fj(ty: &str, content: &str) -> Value {
    let ops = field(ty).unwrap_or_else(|| panic!("field type {ty}"));
    match (ops.parse)(content) {
        Ok(v) => v.json().unwrap(),
        Err(e) => panic!("C04 fixture {ty} {content:?}: {e}"),
    }
}

fn body_of(mt: &str, block4: &str) -> Value {
    let ops = msg(mt).unwrap();
    match (ops.parse_b4)(block4) {
        Ok(b) => b.json().unwrap(),
        Err(e) => panic!("C04 base MT{mt}: {e}"),
    }
}

fn remove_prefix(o: &mut Value, prefix: &str) {
    if let Some(m) = o.as_object_mut() {
        let keys: Vec<String> = m.keys().filter(|k| k.starts_with(prefix) && k.len() <= prefix.len() + 1).cloned().collect();
        for k in keys {
            m.remove(&k);
        }
    }
}

type Labels<'a> = &'a [&'a str];

pub struct Model {
    pub mt: &'static str,
    pub dims: Vec<(&'static str, Vec<String>)>,
    pub render: Box<dyn Fn(Labels) -> Value + Send + Sync>,
    pub expected: Box<dyn Fn(Labels) -> BTreeSet<String> + Send + Sync>,
    pub modelled: Vec<&'static str>,
}

fn s(v: &[&str]) -> Vec<String> {
    v.iter().map(|x| x.to_string()).collect()
}

fn set(codes: &[&str]) -> BTreeSet<String> {
    codes.iter().map(|x| x.to_string()).collect()
}

// ---------------------------------------------------------------------------------------------
// MT103

const E23_CODES: &[&str] = &["SDVA", "INTC", "REPA", "CORT", "HOLD", "CHQB", "PHOB", "TELB", "PHON", "TELE", "PHOI", "TELI"];
const E23_WITH_INFO: &[&str] = &["PHON", "PHOB", "PHOI", "TELE", "TELB", "TELI", "HOLD", "REPA"];
const E23_BAD_PAIRS: &[(&str, &str)] = &[
    ("SDVA", "HOLD"), ("SDVA", "CHQB"), ("INTC", "HOLD"), ("INTC", "CHQB"), ("REPA", "HOLD"), ("REPA", "CHQB"), ("REPA", "CORT"), ("CORT", "HOLD"),
    ("CORT", "CHQB"), ("HOLD", "CHQB"), ("PHOB", "TELB"), ("PHON", "TELE"), ("PHOI", "TELI"),
];

/// 23E choice label: codes joined by '+', a code followed by '!' carries additional information
fn e23_choices() -> Vec<String> {
    let mut v = vec!["none".to_string()];
    for c in E23_CODES {
        v.push(c.to_string());
        v.push(format!("{c}!"));
    }
    v.push("ABCD".into());
    for a in E23_CODES {
        for b in E23_CODES {
            v.push(format!("{a}+{b}"));
        }
    }
    for a in E23_CODES {
        for b in E23_CODES {
            v.push(format!("{a}!+{b}!"));
        }
    }
    v.push("SDVA+INTC+REPA".into());
    v.push("CORT+INTC+SDVA".into());
    v
}

fn e23_json(label: &str) -> Option<Value> {
    if label == "none" {
        return None;
    }
    Some(Value::Array(
        label
            .split('+')
            .map(|c| {
                let (code, info) = match c.strip_suffix('!') {
                    Some(x) => (x, Some("INFO TEXT")),
                    None => (c, None),
                };
                json!({"instruction_code": code, "additional_info": info})
            })
            .collect(),
    ))
}

fn mt103() -> Model {
    let base = body_of(
        "103",
        ":20:REF1\n:23B:CRED\n:32A:250615EUR1000,00\n:33B:EUR1000,00\n:50K:/ACC1\nORDERING NAME\n:52A:BANKDEFF\n:53A:BANKUS33\n:54A:BANKGB2L\n:57A:BANKFRPP\n:59:/ACC2\nBENEFICIARY NAME\n:70:INVOICE 1\n:71A:SHA\n:72:/INS/BANKDEFF",
    );
    let dims = vec![
        ("23B", s(&["CRED", "CRTS", "SPAY", "SPRI", "SSTD", "XXXX"])),
        ("23E", e23_choices()),
        ("33B", s(&["same-ccy", "absent", "diff-ccy"])),
        ("36", s(&["absent", "present"])),
        ("53a", s(&["present", "absent"])),
        ("54a", s(&["present", "absent"])),
        ("55a", s(&["absent", "present"])),
        ("56a", s(&["absent", "A", "C", "D"])),
        ("57a", s(&["present", "absent"])),
        ("59-account", s(&["with-account", "no-account"])),
        ("71A", s(&["SHA", "OUR", "BEN"])),
        ("71F", s(&["0", "1", "2"])),
        ("71G", s(&["absent", "same-ccy", "diff-ccy"])),
    ];
    let render = move |l: Labels| -> Value {
        let mut j = base.clone();
        j["23B"]["instruction_code"] = json!(l[0]);
        match e23_json(l[1]) {
            Some(a) => j["23E"] = a,
            None => {
                j.as_object_mut().unwrap().remove("23E");
            }
        }
        match l[2] {
            "absent" => {
                j.as_object_mut().unwrap().remove("33B");
            }
            "diff-ccy" => j["33B"] = fj("Field33B", "USD1100,00"),
            _ => j["33B"] = fj("Field33B", "EUR1000,00"),
        }
        if l[3] == "present" {
            j["36"] = fj("Field36", "1,1");
        } else {
            j.as_object_mut().unwrap().remove("36");
        }
        if l[4] == "absent" {
            remove_prefix(&mut j, "53");
        }
        if l[5] == "absent" {
            remove_prefix(&mut j, "54");
        }
        if l[6] == "present" {
            j["55A"] = fj("Field55A", "BANKCHZZ");
        }
        match l[7] {
            "A" => j["56A"] = fj("Field56A", "BANKITMM"),
            "C" => j["56C"] = fj("Field56C", "/CLEARING1"),
            "D" => j["56D"] = fj("Field56D", "INTERMEDIARY NAME\nCITY"),
            _ => {}
        }
        if l[8] == "absent" {
            remove_prefix(&mut j, "57");
        }
        if l[9] == "no-account" {
            j["59"] = fj("Field59NoOption", "BENEFICIARY NAME");
        }
        j["71A"]["code"] = json!(l[10]);
        match l[11] {
            "1" => j["71F"] = json!([fj("Field71F", "EUR5,00")]),
            "2" => j["71F"] = json!([fj("Field71F", "EUR5,00"), fj("Field71F", "EUR3,00")]),
            _ => {}
        }
        match l[12] {
            "same-ccy" => j["71G"] = fj("Field71G", "EUR7,00"),
            "diff-ccy" => j["71G"] = fj("Field71G", "USD7,00"),
            _ => {}
        }
        j
    };
    let expected = |l: Labels| -> BTreeSet<String> {
        let mut e = BTreeSet::new();
        let b23 = l[0];
        if !["CRED", "CRTS", "SPAY", "SPRI", "SSTD"].contains(&b23) {
            e.insert("T36".to_string());
        }
        let codes: Vec<(&str, bool)> = if l[1] == "none" { vec![] } else { l[1].split('+').map(|c| (c.trim_end_matches('!'), c.ends_with('!'))).collect() };
        for (c, info) in &codes {
            if !E23_CODES.contains(c) {
                e.insert("T48".into());
            } else if *info && !E23_WITH_INFO.contains(c) {
                e.insert("D97".into());
            }
        }
        // order (only judged when every code is valid)
        let valid: Vec<&str> = codes.iter().map(|x| x.0).filter(|c| E23_CODES.contains(c)).collect();
        let pos = |c: &str| E23_CODES.iter().position(|x| *x == c).unwrap();
        if valid.windows(2).any(|w| pos(w[0]) > pos(w[1])) {
            e.insert("D98".into());
        }
        for (a, b) in E23_BAD_PAIRS {
            if valid.contains(a) && valid.contains(b) {
                e.insert("D67".into());
            }
        }
        let mut seen = BTreeSet::new();
        for c in &valid {
            if !seen.insert(*c) {
                e.insert("E46".into());
            }
        }
        // C1
        let has33 = l[2] != "absent";
        let diff33 = l[2] == "diff-ccy";
        let has36 = l[3] == "present";
        if (diff33 && !has36) || (has36 && !diff33) {
            e.insert("D75".into());
        }
        // C3
        // rule text: "23E may contain only the codes SDVA, TELB, PHOB, INTC" — an unknown code is not one of them
        if b23 == "SPRI" && codes.iter().any(|c| !["SDVA", "TELB", "PHOB", "INTC"].contains(&c.0)) {
            e.insert("E01".into());
        }
        if (b23 == "SSTD" || b23 == "SPAY") && !codes.is_empty() {
            e.insert("E02".into());
        }
        // C4
        if l[6] == "present" && (l[4] == "absent" || l[5] == "absent") {
            e.insert("E06".into());
        }
        // C5
        let has56 = l[7] != "absent";
        let has57 = l[8] == "present";
        if has56 && !has57 {
            e.insert("C81".into());
        }
        // C6
        if b23 == "SPRI" && has56 {
            e.insert("E16".into());
        }
        if (b23 == "SSTD" || b23 == "SPAY") && l[7] == "D" {
            e.insert("E17".into());
        }
        // C7
        let n71f: usize = l[11].parse().unwrap();
        let has71g = l[12] != "absent";
        match l[10] {
            "OUR" => {
                if n71f > 0 {
                    e.insert("E13".into());
                }
            }
            "SHA" => {
                if has71g {
                    e.insert("D50".into());
                }
            }
            _ => {
                if n71f == 0 || has71g {
                    e.insert("E15".into());
                }
            }
        }
        // C8
        if (n71f > 0 || has71g) && !has33 {
            e.insert("D51".into());
        }
        // C9
        if l[12] == "diff-ccy" {
            e.insert("C02".into());
        }
        // C13
        if valid.contains(&"CHQB") && l[9] == "with-account" {
            e.insert("E18".into());
        }
        // C16 / C17
        if !has56 && (valid.contains(&"TELI") || valid.contains(&"PHOI")) {
            e.insert("E44".into());
        }
        if !has57 && (valid.contains(&"TELE") || valid.contains(&"PHON")) {
            e.insert("E45".into());
        }
        e
    };
    Model {
        mt: "103",
        dims,
        render: Box::new(render),
        expected: Box::new(expected),
        modelled: vec!["T36", "T48", "D97", "D98", "D67", "E46", "D75", "E01", "E02", "E06", "C81", "E16", "E17", "E13", "D50", "E15", "D51", "C02", "E18", "E44", "E45"],
    }
}

// ---------------------------------------------------------------------------------------------
// MT202 / MT205

fn mt202() -> Model {
    let base = body_of("202", ":20:REF1\n:21:REL1\n:32A:250615EUR1000,00\n:52A:BANKDEFF\n:57A:BANKFRPP\n:58A:BANKGB2L\n:50K:/ACC1\nORDERING NAME\n:57A:BANKITMM\n:59:/ACC2\nBENEFICIARY NAME");
    let dims = vec![("A.56a", s(&["absent", "A", "D"])), ("A.57a", s(&["present", "absent"])), ("B", s(&["present", "absent"])), ("B.56a", s(&["absent", "A", "C", "D"])), ("B.57a", s(&["present", "absent"]))];
    let render = move |l: Labels| -> Value {
        let mut j = base.clone();
        match l[0] {
            "A" => j["56A"] = fj("Field56A", "BANKCHZZ"),
            "D" => j["56D"] = fj("Field56D", "INTERMEDIARY\nCITY"),
            _ => {}
        }
        if l[1] == "absent" {
            remove_prefix(&mut j, "57");
        }
        if l[2] == "absent" {
            j.as_object_mut().unwrap().remove("#");
        } else {
            let b = j.get_mut("#").unwrap();
            match l[3] {
                "A" => b["56A"] = fj("Field56A", "BANKCHZZ"),
                "C" => b["56C"] = fj("Field56C", "/CLR1"),
                "D" => b["56D"] = fj("Field56D", "INTERMEDIARY\nCITY"),
                _ => {}
            }
            if l[4] == "absent" {
                remove_prefix(b, "57");
            }
        }
        j
    };
    let expected = |l: Labels| -> BTreeSet<String> {
        let mut e = BTreeSet::new();
        if l[0] != "absent" && l[1] == "absent" {
            e.insert("C81".into());
        }
        if l[2] == "present" && l[3] != "absent" && l[4] == "absent" {
            e.insert("C68".into());
        }
        e
    };
    Model { mt: "202", dims, render: Box::new(render), expected: Box::new(expected), modelled: vec!["C81", "C68"] }
}

fn mt205() -> Model {
    let base = body_of("205", ":20:REF1\n:21:REL1\n:32A:250615EUR1000,00\n:52A:BANKDEFF\n:57A:BANKFRPP\n:58A:BANKGB2L");
    let dims = vec![("56a", s(&["absent", "A", "D"])), ("57a", s(&["present", "absent"]))];
    let render = move |l: Labels| -> Value {
        let mut j = base.clone();
        match l[0] {
            "A" => j["56A"] = fj("Field56A", "BANKCHZZ"),
            "D" => j["56D"] = fj("Field56D", "INTERMEDIARY\nCITY"),
            _ => {}
        }
        if l[1] == "absent" {
            remove_prefix(&mut j, "57");
        }
        j
    };
    let expected = |l: Labels| -> BTreeSet<String> { if l[0] != "absent" && l[1] == "absent" { set(&["C81"]) } else { BTreeSet::new() } };
    Model { mt: "205", dims, render: Box::new(render), expected: Box::new(expected), modelled: vec!["C81"] }
}

// ---------------------------------------------------------------------------------------------
// repetition / currency / sum models

fn counts() -> Vec<String> {
    s(&["1", "2", "9", "10", "11", "12"])
}
fn ccy_patterns() -> Vec<String> {
    s(&["all-same", "last-differs", "first-differs", "all-differ"])
}
fn ccy_at(pattern: &str, i: usize, n: usize) -> &'static str {
    match pattern {
        "last-differs" if i + 1 == n && n > 1 => "USD",
        "first-differs" if i == 0 && n > 1 => "USD",
        "all-differ" => ["EUR", "USD", "GBP", "CHF", "JPY", "CAD", "AUD", "SEK", "NOK", "DKK", "PLN", "CZK"][i % 12],
        _ => "EUR",
    }
}
fn currencies_differ(pattern: &str, n: usize) -> bool {
    n > 1 && pattern != "all-same"
}

fn mt110() -> Model {
    let base = body_of("110", ":20:REF1\n:21:CHQ1\n:30:250615\n:32B:EUR100,00\n:59:PAYEE NAME");
    let dims = vec![("cheques", counts()), ("32a-currencies", ccy_patterns()), ("32-option", s(&["B", "A", "A-then-B", "B-then-A", "last-differs"]))];
    let render = move |l: Labels| -> Value {
        let mut j = base.clone();
        let n: usize = l[0].parse().unwrap();
        let proto = j["#"][0].clone();
        let mut arr = Vec::new();
        for i in 0..n {
            let mut c = proto.clone();
            c["21"] = fj("Field21NoOption", &format!("CHQ{i}"));
            remove_prefix(&mut c, "32");
            let ccy = ccy_at(l[1], i, n);
            // the option may differ from cheque to cheque: rule C2 is about the currency, whatever the option
            let opt_a = match l[2] {
                "A" => true,
                "B" => false,
                "A-then-B" => i % 2 == 0,
                "B-then-A" => i % 2 == 1,
                _ => i + 1 == n && n > 1,
            };
            if opt_a {
                c["32A"] = fj("Field32A", &format!("250615{ccy}100,"));
            } else {
                c["32B"] = fj("Field32B", &format!("{ccy}100,"));
            }
            arr.push(c);
        }
        j["#"] = Value::Array(arr);
        j
    };
    let expected = |l: Labels| -> BTreeSet<String> {
        let n: usize = l[0].parse().unwrap();
        let mut e = BTreeSet::new();
        if n > 10 {
            e.insert("T10".into());
        }
        if currencies_differ(l[1], n) {
            e.insert("C02".into());
        }
        e
    };
    Model { mt: "110", dims, render: Box::new(render), expected: Box::new(expected), modelled: vec!["T10", "C02"] }
}

fn mt204() -> Model {
    let base = body_of("204", ":19:100,00\n:20:REF1\n:30:250615\n:58A:BANKGB2L\n:20:TX1\n:32B:EUR100,00\n:53A:BANKDEFF");
    let dims = vec![("transactions", counts()), ("32B-currencies", ccy_patterns()), ("19-vs-sum", s(&["equal", "one-cent-more", "one-unit-less", "zero"]))];
    let render = move |l: Labels| -> Value {
        let mut j = base.clone();
        let n: usize = l[0].parse().unwrap();
        let proto = j["#"][0].clone();
        let mut arr = Vec::new();
        let mut sum_cents: u64 = 0;
        for i in 0..n {
            let mut t = proto.clone();
            t["20"] = fj("Field20", &format!("TX{i}"));
            // amounts whose binary representation is just below the cent (8,20 4,10 1,15 0,29 19,99 ...) when
            // every currency has two decimals, whole units otherwise (the all-differ pattern contains JPY)
            let awkward = [820u64, 410, 115, 29, 1999, 1001, 70, 35, 505, 1110, 257, 999];
            let cents = if l[1] == "all-differ" { 10_000 + 300 * i as u64 } else { awkward[i % awkward.len()] };
            sum_cents += cents;
            t["32B"] = fj("Field32B", &if cents % 100 == 0 { format!("{}{},", ccy_at(l[1], i, n), cents / 100) } else { format!("{}{},{:02}", ccy_at(l[1], i, n), cents / 100, cents % 100) });
            arr.push(t);
        }
        j["#"] = Value::Array(arr);
        let total = match l[2] {
            "one-cent-more" => sum_cents + 1,
            "one-unit-less" => sum_cents - 100,
            "zero" => 0,
            _ => sum_cents,
        };
        j["19"] = json!({"amount": total as f64 / 100.0});
        j
    };
    let expected = |l: Labels| -> BTreeSet<String> {
        let n: usize = l[0].parse().unwrap();
        let mut e = BTreeSet::new();
        if n > 10 {
            e.insert("T10".into());
        }
        if currencies_differ(l[1], n) {
            e.insert("C02".into());
        }
        if l[2] != "equal" {
            e.insert("C01".into());
        }
        e
    };
    Model { mt: "204", dims, render: Box::new(render), expected: Box::new(expected), modelled: vec!["T10", "C02", "C01"] }
}

fn mt210() -> Model {
    let base = body_of("210", ":20:REF1\n:30:250615\n:21:REL1\n:32B:EUR100,00\n:52A:BANKDEFF");
    // base point = two sequences, the 50a/52a variation applied to all of them: the one-dimensional sweeps (which
    // C13 re-uses) then hold messages in which the same rule fails in several sequences
    let dims = vec![("sequences", s(&["2", "1", "9", "10", "11", "12"])), ("32B-currencies", ccy_patterns()), ("50a/52a", s(&["52a-only", "50a-only", "both", "neither"])), ("50a/52a-where", s(&["all", "last", "first"]))];
    let render = move |l: Labels| -> Value {
        let mut j = base.clone();
        let n: usize = l[0].parse().unwrap();
        let proto = j["#"][0].clone();
        let mut arr = Vec::new();
        for i in 0..n {
            let mut t = proto.clone();
            t["21"] = fj("Field21NoOption", &format!("REL{i}"));
            t["32B"] = fj("Field32B", &format!("{}100,", ccy_at(l[1], i, n)));
            if (l[3] == "last" && i + 1 == n) || (l[3] == "first" && i == 0) || l[3] == "all" {
                match l[2] {
                    "50a-only" => {
                        remove_prefix(&mut t, "52");
                        t["50"] = fj("Field50NoOption", "ORDERING NAME");
                    }
                    "both" => t["50"] = fj("Field50NoOption", "ORDERING NAME"),
                    "neither" => remove_prefix(&mut t, "52"),
                    _ => {}
                }
            }
            arr.push(t);
        }
        j["#"] = Value::Array(arr);
        j
    };
    let expected = |l: Labels| -> BTreeSet<String> {
        let n: usize = l[0].parse().unwrap();
        let mut e = BTreeSet::new();
        if n > 10 {
            e.insert("T10".into());
        }
        if currencies_differ(l[1], n) {
            e.insert("C02".into());
        }
        if l[2] == "both" || l[2] == "neither" {
            e.insert("C06".into());
        }
        e
    };
    Model { mt: "210", dims, render: Box::new(render), expected: Box::new(expected), modelled: vec!["T10", "C02", "C06"] }
}

fn mt910() -> Model {
    let base = body_of("910", ":20:REF1\n:21:REL1\n:25:/ACC1\n:32A:250615EUR100,00\n:52A:BANKDEFF");
    let dims = vec![("50a", s(&["absent", "K", "A"])), ("52a", s(&["present", "absent"]))];
    let render = move |l: Labels| -> Value {
        let mut j = base.clone();
        match l[0] {
            "K" => j["50K"] = fj("Field50K", "/ACC9\nORDERING NAME"),
            "A" => j["50A"] = fj("Field50A", "/ACC9\n1/ORDERING NAME"),
            _ => {}
        }
        if l[1] == "absent" {
            remove_prefix(&mut j, "52");
        }
        j
    };
    let expected = |l: Labels| -> BTreeSet<String> { if l[0] == "absent" && l[1] == "absent" { set(&["C06"]) } else { BTreeSet::new() } };
    Model { mt: "910", dims, render: Box::new(render), expected: Box::new(expected), modelled: vec!["C06"] }
}

fn mt920() -> Model {
    let base = body_of("920", ":20:REF1\n:12:940\n:25:/ACC1");
    let dims = vec![
        ("sequences", s(&["1", "2", "3"])),
        ("12-in-last", s(&["940", "941", "942", "950", "103", "999"])),
        ("34F-in-last", s(&["none", "one-no-mark", "one-D", "one-C", "two-D-C", "two-C-D", "two-no-marks", "two-D-C-other-ccy"])),
    ];
    let render = move |l: Labels| -> Value {
        // through the MT text where the parser accepts it: which slot a lone 34F lands in is the parser's decision
        {
            let n: usize = l[0].parse().unwrap();
            let mut text = String::from(":20:REF1");
            for i in 0..n {
                let last = i + 1 == n;
                text.push_str(&format!("\n:12:{}\n:25:/ACC1", if last { l[1] } else { "940" }));
                if last {
                    let lines: &[&str] = match l[2] {
                        "one-no-mark" => &["EUR100,"],
                        "one-D" => &["EURD100,"],
                        "one-C" => &["EURC100,"],
                        "two-D-C" => &["EURD100,", "EURC50,"],
                        "two-C-D" => &["EURC100,", "EURD50,"],
                        "two-no-marks" => &["EUR100,", "EUR50,"],
                        "two-D-C-other-ccy" => &["EURD100,", "USDC50,"],
                        _ => &[],
                    };
                    for x in lines {
                        text.push_str(&format!("\n:34F:{x}"));
                    }
                }
            }
            if let Some(ops) = msg("920")
                && let Ok(Ok(b)) = guard(|| (ops.parse_b4)(&text))
                && let Ok(j) = b.json()
            {
                return j;
            }
        }
        let mut j = base.clone();
        let n: usize = l[0].parse().unwrap();
        let proto = j["#"][0].clone();
        let mut arr = Vec::new();
        for i in 0..n {
            let mut t = proto.clone();
            if i + 1 == n {
                t["12"] = json!({"type_code": l[1]});
                let (a, b): (Option<&str>, Option<&str>) = match l[2] {
                    "one-no-mark" => (Some("EUR100,"), None),
                    "one-D" => (Some("EURD100,"), None),
                    "one-C" => (Some("EURC100,"), None),
                    "two-D-C" => (Some("EURD100,"), Some("EURC50,")),
                    "two-C-D" => (Some("EURC100,"), Some("EURD50,")),
                    "two-no-marks" => (Some("EUR100,"), Some("EUR50,")),
                    "two-D-C-other-ccy" => (Some("EURD100,"), Some("USDC50,")),
                    _ => (None, None),
                };
                if let Some(x) = a {
                    t["34F_1"] = fj("Field34F", x);
                }
                if let Some(x) = b {
                    t["34F_2"] = fj("Field34F", x);
                }
            }
            arr.push(t);
        }
        j["#"] = Value::Array(arr);
        j
    };
    let expected = |l: Labels| -> BTreeSet<String> {
        let mut e = BTreeSet::new();
        if !["940", "941", "942", "950"].contains(&l[1]) {
            e.insert("T88".into());
        }
        if l[1] == "942" && l[2] == "none" {
            e.insert("C22".into());
        }
        match l[2] {
            "one-D" | "one-C" | "two-C-D" | "two-no-marks" => {
                e.insert("C23".into());
            }
            _ => {}
        }
        if l[2] == "two-D-C-other-ccy" {
            e.insert("C40".into());
        }
        e
    };
    Model { mt: "920", dims, render: Box::new(render), expected: Box::new(expected), modelled: vec!["T88", "C22", "C23", "C40"] }
}

fn mt935() -> Model {
    let base = body_of("935", ":20:REF1\n:23:EURCURRENT\n:30:250615\n:37H:C3,5");
    let dims = vec![("sequences", s(&["1", "2", "9", "10", "11", "12", "0"])), ("23/25-in-last", s(&["23-only", "25-only", "both", "neither"]))];
    let render = move |l: Labels| -> Value {
        let mut j = base.clone();
        let n: usize = l[0].parse().unwrap();
        let proto = j["#"][0].clone();
        let mut arr = Vec::new();
        for i in 0..n {
            let mut t = proto.clone();
            if i + 1 == n {
                match l[1] {
                    "25-only" => {
                        t.as_object_mut().unwrap().remove("23");
                        t["25"] = fj("Field25NoOption", "/ACC1");
                    }
                    "both" => t["25"] = fj("Field25NoOption", "/ACC1"),
                    "neither" => {
                        t.as_object_mut().unwrap().remove("23");
                    }
                    _ => {}
                }
            }
            arr.push(t);
        }
        j["#"] = Value::Array(arr);
        j
    };
    let expected = |l: Labels| -> BTreeSet<String> {
        let n: usize = l[0].parse().unwrap();
        let mut e = BTreeSet::new();
        if n == 0 || n > 10 {
            e.insert("T10".into());
        }
        if n > 0 && (l[1] == "both" || l[1] == "neither") {
            e.insert("C83".into());
        }
        e
    };
    Model { mt: "935", dims, render: Box::new(render), expected: Box::new(expected), modelled: vec!["T10", "C83"] }
}

// statements: first two letters of the currency code must agree
fn stmt_ccy(which: &str, slot: &str) -> &'static str {
    // EUR vs EUX share the first two letters; USD does not
    if which == slot { "USD" } else if which == "same-prefix-other-code" && slot == "closing" { "EUX" } else { "EUR" }
}

fn mt940() -> Model {
    let base = body_of("940", ":20:REF1\n:25:/ACC1\n:28C:1/1\n:60F:C250615EUR100,00\n:61:250615C10,00NTRFREF1\n:62F:C250615EUR110,00\n:64:C250615EUR110,00\n:65:C250616EUR110,00\n:65:C250617EUR110,00\n:65:C250618EUR110,00");
    let dims = vec![("currency-deviation", s(&["none", "same-prefix-other-code", "closing", "available", "forward", "forward-middle", "forward-last"]))];
    let render = move |l: Labels| -> Value {
        let mut j = base.clone();
        j["62F"]["currency"] = json!(stmt_ccy(l[0], "closing"));
        j["64"]["currency"] = json!(stmt_ccy(l[0], "available"));
        j["65"][0]["currency"] = json!(stmt_ccy(l[0], "forward"));
        j["65"][1]["currency"] = json!(stmt_ccy(l[0], "forward-middle"));
        j["65"][2]["currency"] = json!(stmt_ccy(l[0], "forward-last"));
        j
    };
    let expected = |l: Labels| -> BTreeSet<String> { if ["closing", "available", "forward", "forward-middle", "forward-last"].contains(&l[0]) { set(&["C27"]) } else { BTreeSet::new() } };
    Model { mt: "940", dims, render: Box::new(render), expected: Box::new(expected), modelled: vec!["C27"] }
}

fn mt941() -> Model {
    let base = body_of("941", ":20:REF1\n:25:/ACC1\n:28:1/1\n:60F:C250615EUR100,00\n:90D:1EUR10,00\n:90C:2EUR20,00\n:62F:C250615EUR110,00\n:64:C250615EUR110,00\n:65:C250616EUR110,00\n:65:C250617EUR110,00\n:65:C250618EUR110,00");
    let dims = vec![("currency-deviation", s(&["none", "same-prefix-other-code", "opening", "debits", "credits", "available", "forward", "forward-middle", "forward-last"]))];
    let render = move |l: Labels| -> Value {
        let mut j = base.clone();
        let c = |slot: &str| if l[0] == slot { "USD" } else { "EUR" };
        j["60F"]["currency"] = json!(c("opening"));
        j["90D"]["currency"] = json!(c("debits"));
        j["90C"]["currency"] = json!(c("credits"));
        j["64"]["currency"] = json!(if l[0] == "same-prefix-other-code" { "EUX" } else { c("available") });
        j["65"][0]["currency"] = json!(c("forward"));
        j["65"][1]["currency"] = json!(c("forward-middle"));
        j["65"][2]["currency"] = json!(c("forward-last"));
        j
    };
    let expected = |l: Labels| -> BTreeSet<String> { if ["opening", "debits", "credits", "available", "forward", "forward-middle", "forward-last"].contains(&l[0]) { set(&["C27"]) } else { BTreeSet::new() } };
    Model { mt: "941", dims, render: Box::new(render), expected: Box::new(expected), modelled: vec!["C27"] }
}

fn mt942() -> Model {
    let base = body_of("942", ":20:REF1\n:25:/ACC1\n:28C:1/1\n:34F:EURD100,00\n:34F:EURC50,00\n:13D:2506151200+0100\n:61:250615C10,00NTRFREF1\n:90D:1EUR10,00\n:90C:2EUR20,00");
    let dims = vec![
        ("34F", s(&["two-D-C", "one-no-mark", "one-D", "one-C", "two-C-D", "two-no-marks"])),
        ("currency-deviation", s(&["none", "same-prefix-other-code", "debits", "credits"])),
    ];
    let render = move |l: Labels| -> Value {
        let mut j = base.clone();
        let (a, b): (&str, Option<&str>) = match l[0] {
            "one-no-mark" => ("EUR100,", None),
            "one-D" => ("EURD100,", None),
            "one-C" => ("EURC100,", None),
            "two-C-D" => ("EURC100,", Some("EURD50,")),
            "two-no-marks" => ("EUR100,", Some("EUR50,")),
            _ => ("EURD100,", Some("EURC50,")),
        };
        // through the MT text where the parser accepts it (the parser decides the slot of each 34F)
        let text = format!(
            ":20:REF1\n:25:/ACC1\n:28C:1/1\n:34F:{a}{}\n:13D:2506151200+0100\n:61:250615C10,00NTRFREF1\n:90D:1EUR10,00\n:90C:2EUR20,00",
            b.map(|x| format!("\n:34F:{x}")).unwrap_or_default()
        );
        if let Some(ops) = msg("942")
            && let Ok(Ok(pb)) = guard(|| (ops.parse_b4)(&text))
            && let Ok(pj) = pb.json()
        {
            j = pj;
        } else {
            j["34F_debit"] = fj("Field34F", a);
            match b {
                Some(x) => j["34F_credit"] = fj("Field34F", x),
                None => {
                    j.as_object_mut().unwrap().remove("34F_credit");
                }
            }
        }
        j["90D"]["currency"] = json!(if l[1] == "debits" { "USD" } else { "EUR" });
        j["90C"]["currency"] = json!(if l[1] == "credits" { "USD" } else if l[1] == "same-prefix-other-code" { "EUX" } else { "EUR" });
        j
    };
    let expected = |l: Labels| -> BTreeSet<String> {
        let mut e = BTreeSet::new();
        if ["one-D", "one-C", "two-C-D", "two-no-marks"].contains(&l[0]) {
            e.insert("C23".into());
        }
        if l[1] == "debits" || l[1] == "credits" {
            e.insert("C27".into());
        }
        e
    };
    Model { mt: "942", dims, render: Box::new(render), expected: Box::new(expected), modelled: vec!["C23", "C27"] }
}

fn mt950() -> Model {
    let base = body_of("950", ":20:REF1\n:25:/ACC1\n:28C:1/1\n:60F:C250615EUR100,00\n:61:250615C10,00NTRFREF1\n:62F:C250615EUR110,00\n:64:C250615EUR110,00");
    let dims = vec![("currency-deviation", s(&["none", "same-prefix-other-code", "closing", "available"]))];
    let render = move |l: Labels| -> Value {
        let mut j = base.clone();
        j["62"]["F"]["currency"] = json!(if l[0] == "closing" { "USD" } else { "EUR" });
        j["64"]["currency"] = json!(if l[0] == "available" { "USD" } else if l[0] == "same-prefix-other-code" { "EUX" } else { "EUR" });
        j
    };
    let expected = |l: Labels| -> BTreeSet<String> { if l[0] == "closing" || l[0] == "available" { set(&["C27"]) } else { BTreeSet::new() } };
    Model { mt: "950", dims, render: Box::new(render), expected: Box::new(expected), modelled: vec!["C27"] }
}

// ---------------------------------------------------------------------------------------------
// MT101 (conditional-presence and exclusivity rules)

fn mt101() -> Model {
    let base = body_of(
        "101",
        ":20:REF1\n:28D:1/1\n:50H:/ACC1\nORDERING NAME\n:30:250615\n:21:TX1\n:32B:EUR100,00\n:57A:BANKFRPP\n:59:/ACC2\nBENEFICIARY ONE\n:71A:SHA\n:21:TX2\n:32B:EUR200,00\n:57A:BANKFRPP\n:59:/ACC3\nBENEFICIARY TWO\n:71A:SHA",
    );
    let dims = vec![
        ("50a-FGH", s(&["A-only", "every-B", "A-and-every-B", "one-B-only", "nowhere", "A-and-one-B"])),
        ("50a-CL", s(&["nowhere", "A-only", "B-only", "A-and-B"])),
        ("52a", s(&["nowhere", "A-only", "B-only", "A-and-B"])),
        ("56a-in-B1", s(&["absent", "present"])),
        ("57a-in-B1", s(&["present", "absent"])),
        ("36-in-B1", s(&["absent", "present"])),
        ("21F-in-B1", s(&["absent", "present"])),
        ("33B-in-B1", s(&["absent", "diff-ccy", "same-ccy"])),
        ("21R", s(&["absent", "present"])),
        ("32B-currencies", s(&["same", "differ"])),
        ("transactions", tx_shapes()),
    ];
    let render = move |l: Labels| -> Value {
        let mut j = base.clone();
        let oc = fj("Field50H", "/ACC1\nORDERING NAME");
        remove_prefix(&mut j, "50");
        let (a, b1, b2) = match l[0] {
            "A-only" => (true, false, false),
            "every-B" => (false, true, true),
            "A-and-every-B" => (true, true, true),
            "one-B-only" => (false, true, false),
            "A-and-one-B" => (true, true, false),
            _ => (false, false, false),
        };
        if a {
            j["50H"] = oc.clone();
        }
        if b1 {
            j["#"][0]["50H"] = oc.clone();
        }
        if b2 {
            j["#"][1]["50H"] = oc.clone();
        }
        let ip = fj("Field50L", "INSTRUCTING PARTY");
        if l[1] == "A-only" || l[1] == "A-and-B" {
            j["50L"] = ip.clone();
        }
        if l[1] == "B-only" || l[1] == "A-and-B" {
            j["#"][1]["50L"] = ip.clone();
        }
        let asi = fj("Field52A", "BANKDEFF");
        if l[2] == "A-only" || l[2] == "A-and-B" {
            j["52A"] = asi.clone();
        }
        if l[2] == "B-only" || l[2] == "A-and-B" {
            j["#"][1]["52A"] = asi.clone();
        }
        if l[3] == "present" {
            j["#"][0]["56A"] = fj("Field56A", "BANKCHZZ");
        }
        if l[4] == "absent" {
            remove_prefix(&mut j["#"][0], "57");
        }
        if l[5] == "present" {
            j["#"][0]["36"] = fj("Field36", "1,1");
        }
        if l[6] == "present" {
            j["#"][0]["21F"] = fj("Field21F", "FXDEAL1");
        }
        match l[7] {
            "diff-ccy" => j["#"][0]["33B"] = fj("Field33B", "USD110,00"),
            "same-ccy" => j["#"][0]["33B"] = fj("Field33B", "EUR100,00"),
            _ => {}
        }
        if l[8] == "present" {
            j["21R"] = fj("Field21R", "CUSTREF1");
        }
        if l[9] == "differ" {
            j["#"][1]["32B"] = fj("Field32B", "USD200,00");
        }
        apply_tx_shape(&mut j, l[10], "21");
        j
    };
    let expected = |l: Labels| -> BTreeSet<String> {
        let mut e = BTreeSet::new();
        // C1: 36 => 21F
        if l[5] == "present" && l[6] == "absent" {
            e.insert("D54".into());
        }
        // C3: F/G/H in A xor in every B
        if l[0] != "A-only" && l[0] != "every-B" {
            e.insert("D61".into());
        }
        // C4 / C6
        if l[1] == "A-and-B" {
            e.insert("D62".into());
        }
        if l[2] == "A-and-B" {
            e.insert("D64".into());
        }
        // C7
        if l[3] == "present" && l[4] == "absent" {
            e.insert("D65".into());
        }
        // C5
        if l[7] == "same-ccy" {
            e.insert("D68".into());
        }
        // C8
        if l[8] == "present" && l[9] == "differ" {
            e.insert("D98".into());
        }
        e
    };
    // D60 (C2) and E54 (C9) depend on amounts being zero and are left to the library (not judged)
    Model { mt: "101", dims, render: Box::new(render), expected: Box::new(expected), modelled: vec!["D54", "D61", "D62", "D64", "D65", "D68", "D98"] }
}

// ---------------------------------------------------------------------------------------------
// MT104 / MT107 (direct debits): sequence A / B placement rules, charges, sums

fn placement() -> Vec<String> {
    s(&["nowhere", "A", "B1", "A-and-B1"])
}
fn in_a(l: &str) -> bool {
    l == "A" || l == "A-and-B1"
}
fn in_b(l: &str) -> bool {
    l == "B1" || l == "A-and-B1"
}

/// Sequence-B shape: optionally a third transaction (a copy of the second, so that "every B"
/// labels stay true) and / or reversed order, so that a violation sits in the first, a middle or the
/// last occurrence. Every modelled rule is symmetric in the order of the transactions.
fn tx_shapes() -> Vec<String> {
    s(&["2", "3", "2-reversed", "3-reversed"])
}
fn apply_tx_shape(j: &mut Value, shape: &str, ref_key: &str) {
    let arr = j["#"].as_array_mut().unwrap();
    if shape.starts_with('3') {
        let mut c = arr[arr.len() - 1].clone();
        c[ref_key] = json!({"reference": "TX3"});
        arr.push(c);
    }
    if shape.ends_with("reversed") {
        arr.reverse();
    }
}

fn direct_debit(mt: &'static str) -> Model {
    let is104 = mt == "104";
    let base = body_of(
        mt,
        ":20:REF1\n:23E:AUTH\n:30:250615\n:50K:/ACC1\nCREDITOR NAME\n:21:TX1\n:32B:EUR128,\n:59:/ACC2\nDEBTOR ONE\n:21:TX2\n:32B:EUR172,\n:59:/ACC3\nDEBTOR TWO\n:32B:EUR300,",
    );
    let mut a23 = s(&["AUTH", "absent", "RTND", "OTHR!", "AUTH!", "NAUT", "XXXX", "RFDD"]);
    if !is104 {
        a23.pop();
        a23.push("RFDD".into()); // not a valid code in MT107
    }
    let mut seqc = s(&["C=sum,no-19", "C=sum,19=sum", "C>sum,no-19", "C>sum,19=sum", "C>sum,19=sum+10", "C>sum,19=sum+0.01", "C=sum+0.01,no-19"]);
    if is104 {
        seqc.push("no-C".into());
    }
    let mut dims = vec![
        ("A.23E", a23),
        ("B.23E", s(&["none", "all-AUTH", "B1-only", "all-OTHR!", "all-AUTH!", "all-XXXX", "all-RFDD"])),
        ("creditor-50a-AK", s(&["A-only", "every-B", "A-and-B1", "B1-only", "nowhere"])),
        ("21E", placement()),
        ("26T", placement()),
        ("52a", placement()),
        ("71A", placement()),
        ("77B", placement()),
        ("50a-CL", placement()),
        ("72", s(&["absent", "present"])),
        ("71F", s(&["nowhere", "B1-only", "C-only", "B1-and-C", "B1-and-C-other-ccy", "B1-B2-other-ccy-and-C"])),
        ("71G", s(&["nowhere", "B1-only", "C-only", "B1-and-C", "B1-and-C-other-ccy", "B1-B2-other-ccy-and-C"])),
        ("33B-in-B1", s(&["absent", "same-ccy-same-amount", "same-ccy-other-amount", "other-ccy", "same-ccy-one-cent-more"])),
        ("36-in-B1", s(&["absent", "present"])),
        ("seqC/19", seqc),
        ("32B-currencies", s(&["same", "B2-differs", "C-differs"])),
    ];
    if is104 {
        dims.push(("21R", s(&["absent", "present"])));
    }
    dims.push(("transactions", tx_shapes()));
    let shape_at = dims.len() - 1;
    let render = move |l: Labels| -> Value {
        let mut j = base.clone();
        let sum: f64 = if l[shape_at].starts_with('3') { 472.0 } else { 300.0 };
        let e23 = |lab: &str| -> Value {
            let (code, info) = match lab.strip_suffix('!') {
                Some(c) => (c, Some("INFO")),
                None => (lab, None),
            };
            json!({"instruction_code": code, "additional_info": info})
        };
        if l[0] == "absent" {
            j.as_object_mut().unwrap().remove("23E");
        } else {
            j["23E"] = e23(l[0]);
        }
        match l[1] {
            "none" => {}
            "B1-only" => j["#"][0]["23E"] = e23("AUTH"),
            x => {
                let c = x.strip_prefix("all-").unwrap();
                j["#"][0]["23E"] = e23(c);
                j["#"][1]["23E"] = e23(c);
            }
        }
        let cred = fj("Field50K", "/ACC1\nCREDITOR NAME");
        remove_prefix(&mut j, "50");
        let (ca, cb1, cb2) = match l[2] {
            "A-only" => (true, false, false),
            "every-B" => (false, true, true),
            "A-and-B1" => (true, true, false),
            "B1-only" => (false, true, false),
            _ => (false, false, false),
        };
        if ca {
            j["50K"] = cred.clone();
        }
        if cb1 {
            j["#"][0]["50K"] = cred.clone();
        }
        if cb2 {
            j["#"][1]["50K"] = cred.clone();
        }
        let put = |j: &mut Value, lab: &str, key: &str, v: Value| {
            if in_a(lab) {
                j[key] = v.clone();
            }
            if in_b(lab) {
                j["#"][0][key] = v;
            }
        };
        put(&mut j, l[3], "21E", fj("Field21E", "REGREF1"));
        put(&mut j, l[4], "26T", fj("Field26T", "TAX"));
        put(&mut j, l[5], "52A", fj("Field52A", "BANKDEFF"));
        put(&mut j, l[6], "71A", fj("Field71A", "SHA"));
        put(&mut j, l[7], "77B", fj("Field77B", "/ORDERRES/DE//INFO"));
        put(&mut j, l[8], "50L", fj("Field50L", "INSTRUCTING PARTY"));
        if l[9] == "present" {
            j["72"] = fj("Field72", "/RETN/REASON");
        }
        for (d, key, ty) in [(10usize, "71F", "Field71F"), (11usize, "71G", "Field71G")] {
            let lab = l[d];
            let inb = lab.starts_with("B1");
            let inc = lab.contains("C-only") || lab.contains("and-C");
            if inb {
                j["#"][0][key] = fj(ty, "EUR5,");
            }
            if lab.starts_with("B1-B2") {
                j["#"][1][key] = fj(ty, "USD5,");
            }
            if inc {
                j[key] = fj(ty, if lab == "B1-and-C-other-ccy" { "USD5," } else { "EUR5," });
            }
        }
        match l[12] {
            "same-ccy-same-amount" => j["#"][0]["33B"] = fj("Field33B", "EUR128,"),
            "same-ccy-one-cent-more" => j["#"][0]["33B"] = fj("Field33B", "EUR128,01"),
            "same-ccy-other-amount" => j["#"][0]["33B"] = fj("Field33B", "EUR90,"),
            "other-ccy" => j["#"][0]["33B"] = fj("Field33B", "USD110,"),
            _ => {}
        }
        if l[13] == "present" {
            j["#"][0]["36"] = fj("Field36", "1,1");
        }
        let (c, f19): (Option<f64>, Option<f64>) = match l[14] {
            "C=sum,no-19" => (Some(sum), None),
            "C=sum,19=sum" => (Some(sum), Some(sum)),
            "C>sum,no-19" => (Some(sum + 10.0), None),
            "C>sum,19=sum" => (Some(sum + 10.0), Some(sum)),
            "C>sum,19=sum+10" => (Some(sum + 10.0), Some(sum + 10.0)),
            "C>sum,19=sum+0.01" => (Some(sum + 10.0), Some(sum + 0.01)),
            "C=sum+0.01,no-19" => (Some(sum + 0.01), None),
            _ => (None, None),
        };
        match c {
            Some(a) => j["32B"] = json!({"currency": if l[15] == "C-differs" { "USD" } else { "EUR" }, "amount": a}),
            None => {
                j.as_object_mut().unwrap().remove("32B");
            }
        }
        if let Some(a) = f19 {
            j["19"] = json!({"amount": a});
        }
        if l[15] == "B2-differs" {
            j["#"][1]["32B"]["currency"] = json!("USD");
        }
        if is104 && l[16] == "present" {
            j["21R"] = fj("Field21R", "CUSTREF1");
        }
        apply_tx_shape(&mut j, l[shape_at], "21");
        j
    };
    let expected = move |l: Labels| -> BTreeSet<String> {
        let mut e = BTreeSet::new();
        let a_code = l[0].trim_end_matches('!');
        let a_present = l[0] != "absent";
        let b_any = l[1] != "none";
        let b_all = b_any && l[1] != "B1-only";
        let rfdd = is104 && a_code == "RFDD";
        let (ca, cb_any, cb_all, cb1) = match l[2] {
            "A-only" => (true, false, false, false),
            "every-B" => (false, true, true, true),
            "A-and-B1" => (true, true, false, true),
            "B1-only" => (false, true, false, true),
            _ => (false, false, false, false),
        };
        if is104 {
            // C1
            if (!a_present || rfdd) && !b_all {
                e.insert("C75".to_string());
            }
            if a_present && !rfdd && b_any {
                e.insert("C75".into());
            }
            // C2
            if (ca && cb_any) || (!ca && !cb_all) {
                e.insert("C76".into());
            }
        } else {
            // C1 of MT107
            if (a_present && b_any) || (!a_present && !b_all) || (ca && cb_any) || (!ca && !cb_all) {
                e.insert("D86".into());
            }
        }
        // mutual exclusivity A / B
        if (3..=8).any(|d| l[d] == "A-and-B1") {
            e.insert("D73".into());
        }
        // 21E needs the creditor in the same sequence
        if (in_a(l[3]) && !ca) || (in_b(l[3]) && !cb1) {
            e.insert("D77".into());
        }
        // 72 iff RTND
        if (a_code == "RTND") != (l[9] == "present") {
            e.insert("C82".into());
        }
        // charges B <-> C
        let mut charges_in_b = false;
        for d in [10usize, 11] {
            let inb = l[d].starts_with("B1");
            let inc = l[d].contains("C-only") || l[d].contains("and-C");
            charges_in_b |= inb;
            if inb != inc {
                e.insert("D79".into());
            }
            if l[d].contains("other-ccy") {
                e.insert("C02".into());
            }
        }
        if l[12] == "same-ccy-same-amount" {
            e.insert("D21".into());
        }
        if (l[12] == "other-ccy") != (l[13] == "present") {
            e.insert("D75".into());
        }
        let has_c = l[14] != "no-C";
        let has19 = l[14].contains(",19=");
        let c_equal = l[14].starts_with("C=sum,");
        let f19_equal = l[14].ends_with(",19=sum");
        if is104 {
            if has_c && (c_equal == has19) {
                e.insert("D80".into());
            }
            if has19 && !f19_equal {
                e.insert("C01".into());
            }
        } else {
            // MT107 as documented by the crate: with charges in B the sum goes to field 19, without to 32B of C
            if charges_in_b {
                if !has19 {
                    e.insert("D80".into());
                } else if !f19_equal {
                    e.insert("C01".into());
                }
            } else {
                if !c_equal || has19 {
                    e.insert("D80".into());
                }
                e.insert("?C01".into());
            }
        }
        if l[15] == "B2-differs" || (l[15] == "C-differs" && has_c) {
            e.insert("C02".into());
        }
        if is104 {
            if rfdd {
                if in_b(l[3]) || cb_any || in_b(l[5]) || l[10].starts_with("B1") || l[11].starts_with("B1") || has_c {
                    e.insert("C96".into());
                }
            } else if l[16] == "present" || !has_c {
                e.insert("C96".into());
            }
        }
        // code tables
        let a_valid: &[&str] = if is104 { &["AUTH", "NAUT", "OTHR", "RFDD", "RTND"] } else { &["AUTH", "NAUT", "OTHR", "RTND"] };
        let b_valid: &[&str] = if is104 { &["AUTH", "NAUT", "OTHR"] } else { &["AUTH", "NAUT", "OTHR", "RTND"] };
        if a_present && !a_valid.contains(&a_code) {
            e.insert("T47".into());
        }
        if l[0].ends_with('!') && a_code != "OTHR" {
            e.insert("D81".into());
        }
        if b_any {
            let bl = if l[1] == "B1-only" { "AUTH" } else { l[1].strip_prefix("all-").unwrap() };
            let bc = bl.trim_end_matches('!');
            if !b_valid.contains(&bc) {
                e.insert("T47".into());
            }
            if bl.ends_with('!') && bc != "OTHR" {
                e.insert("D81".into());
            }
        }
        e
    };
    let modelled: Vec<&'static str> = if is104 {
        vec!["C75", "C76", "D73", "D77", "C82", "D79", "D21", "D75", "D80", "C01", "C02", "C96", "T47", "D81"]
    } else {
        vec!["D86", "D73", "D77", "C82", "D79", "D21", "D75", "D80", "C01", "C02", "T47", "D81"]
    };
    Model { mt, dims, render: Box::new(render), expected: Box::new(expected), modelled }
}

// ---------------------------------------------------------------------------------------------
// MT200: field 72 must not carry /REJT/ or /RETN/

fn mt200() -> Model {
    let base = body_of("200", ":20:REF1\n:32A:250615EUR1000,\n:57A:BANKFRPP");
    let dims = vec![("72", s(&["absent", "/INS/", "/REJT/", "/RETN/", "/ACC/ then /RETN/", "text mentioning RETN"]))];
    let render = move |l: Labels| -> Value {
        let mut j = base.clone();
        let t = match l[0] {
            "/INS/" => Some("/INS/BANKDEFF"),
            "/REJT/" => Some("/REJT/99"),
            "/RETN/" => Some("/RETN/99"),
            "/ACC/ then /RETN/" => Some("/ACC/INFO\n/RETN/99"),
            "text mentioning RETN" => Some("/ACC/SEE RETN GUIDE"),
            _ => None,
        };
        if let Some(t) = t {
            j["72"] = fj("Field72", t);
        }
        j
    };
    let expected = |l: Labels| -> BTreeSet<String> { if ["/REJT/", "/RETN/", "/ACC/ then /RETN/"].contains(&l[0]) { set(&["T80"]) } else { BTreeSet::new() } };
    Model { mt: "200", dims, render: Box::new(render), expected: Box::new(expected), modelled: vec!["T80"] }
}

// ---------------------------------------------------------------------------------------------
// MT101, second model: 23E code tables and the zero-amount rules of one transaction

const M101_CODES: &[&str] = &["CHQB", "CMSW", "CMTO", "CMZB", "CORT", "EQUI", "INTC", "NETS", "OTHR", "PHON", "REPA", "RTGS", "URGP"];
const M101_WITH_INFO: &[&str] = &["CMTO", "PHON", "OTHR", "REPA"];
const M101_BAD: &[(&str, &[&str])] = &[
    ("CHQB", &["CMSW", "CMTO", "CMZB", "CORT", "NETS", "PHON", "REPA", "RTGS", "URGP"]),
    ("CMSW", &["CMTO", "CMZB"]),
    ("CMTO", &["CMZB"]),
    ("CORT", &["CMSW", "CMTO", "CMZB", "REPA"]),
    ("EQUI", &["CMSW", "CMTO", "CMZB"]),
    ("NETS", &["RTGS"]),
];

fn mt101_codes() -> Model {
    let base = body_of(
        "101",
        ":20:REF1\n:28D:1/1\n:50H:/ACC1\nORDERING NAME\n:30:250615\n:21:TX1\n:32B:EUR100,00\n:57A:BANKFRPP\n:59:/ACC2\nBENEFICIARY ONE\n:71A:SHA\n:21:TX2\n:32B:EUR200,00\n:57A:BANKFRPP\n:59:/ACC3\nBENEFICIARY TWO\n:71A:SHA",
    );
    let mut c23 = vec!["none".to_string()];
    for c in M101_CODES {
        c23.push(c.to_string());
        c23.push(format!("{c}!"));
    }
    c23.push("ABCD".into());
    for a in M101_CODES {
        for b in M101_CODES {
            c23.push(format!("{a}+{b}"));
        }
    }
    // two per-code errors on different codes, with and without a forbidden combination
    for a in M101_CODES {
        for b in M101_CODES {
            c23.push(format!("{a}!+{b}!"));
        }
    }
    c23.push("OTHR!+OTHR!+OTHR".into());
    c23.push("CHQB!+RTGS!+URGP!".into());
    let dims = vec![
        ("23E-in-B1", c23),
        ("32B-amount", s(&["non-zero", "zero"])),
        ("33B", s(&["absent", "present"])),
        ("36", s(&["absent", "present"])),
        ("21F", s(&["absent", "present"])),
        ("transactions", tx_shapes()),
    ];
    let render = move |l: Labels| -> Value {
        let mut j = base.clone();
        if let Some(a) = e23_json(l[0]) {
            j["#"][0]["23E"] = a;
        }
        if l[1] == "zero" {
            j["#"][0]["32B"]["amount"] = json!(0.0);
        }
        if l[2] == "present" {
            j["#"][0]["33B"] = fj("Field33B", "USD110,00");
        }
        if l[3] == "present" {
            j["#"][0]["36"] = fj("Field36", "1,1");
        }
        if l[4] == "present" {
            j["#"][0]["21F"] = fj("Field21F", "FXDEAL1");
        }
        apply_tx_shape(&mut j, l[5], "21");
        j
    };
    let expected = |l: Labels| -> BTreeSet<String> {
        let mut e = BTreeSet::new();
        let codes: Vec<(&str, bool)> = if l[0] == "none" { vec![] } else { l[0].split('+').map(|c| (c.trim_end_matches('!'), c.ends_with('!'))).collect() };
        let mut seen = BTreeSet::new();
        for (c, info) in &codes {
            if !M101_CODES.contains(c) {
                e.insert("T47".to_string());
            }
            if *info && !M101_WITH_INFO.contains(c) {
                e.insert("D66".into());
            }
            if *c != "OTHR" && !seen.insert(*c) {
                e.insert("E46".into());
            }
        }
        for (a, bad) in M101_BAD {
            if codes.iter().any(|c| c.0 == *a) && codes.iter().any(|c| bad.contains(&c.0)) {
                e.insert("D67".into());
            }
        }
        let zero = l[1] == "zero";
        let (has33, has36, has21f) = (l[2] == "present", l[3] == "present", l[4] == "present");
        if has36 && !has21f {
            e.insert("D54".into());
        }
        if (has33 && !zero && !has36) || (has33 && zero && has36) || (!has33 && has36) {
            e.insert("D60".into());
        }
        if zero {
            let equi = codes.iter().any(|c| c.0 == "EQUI");
            if (equi && !has33) || (!equi && (has33 || has21f)) {
                e.insert("E54".into());
            }
        }
        e
    };
    Model { mt: "101", dims, render: Box::new(render), expected: Box::new(expected), modelled: vec!["T47", "D66", "E46", "D67", "D54", "D60", "E54"] }
}

// ---------------------------------------------------------------------------------------------
// MT935, second model: field 23 function codes and field 37H indicator / sign

fn mt935_fields() -> Model {
    let base = body_of("935", ":20:REF1\n:23:EURCURRENT\n:30:250615\n:37H:C3,5");
    let dims = vec![
        ("23-function", s(&["CURRENT", "BASE", "CALL", "COMMERCIAL", "DEPOSIT", "NOTICE", "PRIME", "XXXX", "NOTICE+days", "CURRENT+days", "current"])),
        ("37H-indicator", s(&["C", "D", "X"])),
        ("37H-rate", s(&["non-zero", "non-zero-negative", "zero", "zero-negative"])),
    ];
    let render = move |l: Labels| -> Value {
        let mut j = base.clone();
        let (f, days) = match l[0].strip_suffix("+days") {
            Some(f) => (f, Some(7)),
            None => (l[0], None),
        };
        j["#"][0]["23"] = json!({"function_code": "EUR", "days": days, "reference": f});
        let (rate, neg): (f64, Option<bool>) = match l[2] {
            "non-zero-negative" => (3.5, Some(true)),
            "zero" => (0.0, None),
            "zero-negative" => (0.0, Some(true)),
            _ => (3.5, None),
        };
        j["#"][0]["37H"] = json!([{"rate_indicator": l[1], "is_negative": neg, "rate": rate}]);
        j
    };
    let expected = |l: Labels| -> BTreeSet<String> {
        let mut e = BTreeSet::new();
        if ["XXXX", "CURRENT+days", "current"].contains(&l[0]) {
            e.insert("T26".to_string());
        }
        if l[1] == "X" {
            e.insert("T51".into());
        }
        if l[2] == "zero-negative" {
            e.insert("T14".into());
        }
        e
    };
    Model { mt: "935", dims, render: Box::new(render), expected: Box::new(expected), modelled: vec!["T26", "T51", "T14"] }
}

// ---------------------------------------------------------------------------------------------
// n92 / n96: field 79 or copy of fields

fn n92(mt: &'static str, code: &'static str) -> Model {
    let base = body_of(mt, ":20:REF1\n:21:REL1\n:11S:1032506150123456789\n:79:CANCELLATION REQUEST");
    // field 79: absent, free text, each documented cancellation reason as /CODE/, other four-character code
    // words, a code word of another length, a code word that is not on the first line
    let mut f79: Vec<String> = s(&["free-text", "absent"]);
    for c in ["AGNT", "AM09", "COVR", "CURR", "CUST", "CUTA", "DUPL", "FRAD", "TECH", "UPAY"] {
        f79.push(format!("/{c}/"));
    }
    for c in ["/ABCD/", "/DUPX/", "/dupl/", "/DUP/", "/DUPLI/", "second-line:/ABCD/", "/DUPL/+second-line:/ABCD/"] {
        f79.push(c.to_string());
    }
    let dims = vec![("79", f79)];
    let render = move |l: Labels| -> Value {
        let mut j = base.clone();
        match l[0] {
            "absent" => {
                j.as_object_mut().unwrap().remove("79");
            }
            "free-text" => {}
            "second-line:/ABCD/" => j["79"] = fj("Field79", "SOME TEXT\n/ABCD/MORE"),
            "/DUPL/+second-line:/ABCD/" => j["79"] = fj("Field79", "/DUPL/TEXT\n/ABCD/MORE"),
            x => j["79"] = fj("Field79", &format!("{x}REASON TEXT")),
        }
        j
    };
    let expected = move |l: Labels| -> BTreeSet<String> {
        let mut e = BTreeSet::new();
        if l[0] == "absent" {
            e.insert(code.to_string());
        }
        // a four-character code word at the start of the first line must be one of the documented reasons
        if ["/ABCD/", "/DUPX/", "/dupl/"].contains(&l[0]) {
            e.insert("T47".to_string());
        }
        e
    };
    Model { mt, dims, render: Box::new(render), expected: Box::new(expected), modelled: vec![code, "T47"] }
}

/// MT292 / MT296: field 79 and / or a copy of fields of the original message
fn n9x_copy(mt: &'static str) -> Model {
    let base = if mt == "292" { body_of(mt, ":20:REF1\n:21:REL1\n:11S:2022506150123456789\n:79:CANCELLATION REQUEST") } else { body_of(mt, ":20:REF1\n:21:REL1\n:76:/CNCL/\n:79:ANSWER TEXT") };
    let dims = vec![("79", s(&["present", "absent"])), ("copy-of-fields", s(&["absent", "present"]))];
    let render = move |l: Labels| -> Value {
        let mut j = base.clone();
        if l[0] == "absent" {
            j.as_object_mut().unwrap().remove("79");
        }
        if l[1] == "present" {
            j["32A"] = fj("Field32A", "250615EUR1000,");
        }
        j
    };
    let expected = move |l: Labels| -> BTreeSet<String> {
        let (has79, copy) = (l[0] == "present", l[1] == "present");
        if mt == "292" {
            if !has79 && !copy { set(&["C25"]) } else { BTreeSet::new() }
        } else if has79 && copy {
            set(&["C31"])
        } else {
            BTreeSet::new()
        }
    };
    Model { mt, dims, render: Box::new(render), expected: Box::new(expected), modelled: vec![if mt == "292" { "C25" } else { "C31" }] }
}

/// MT196: the type cannot represent a copy of fields, so C31 can never be violated
fn mt196() -> Model {
    let base = body_of("196", ":20:REF1\n:21:REL1\n:76:/CNCL/\n:79:ANSWER TEXT");
    let dims = vec![("79", s(&["present", "absent"]))];
    let render = move |l: Labels| -> Value {
        let mut j = base.clone();
        if l[0] == "absent" {
            j.as_object_mut().unwrap().remove("79");
        }
        j
    };
    Model { mt: "196", dims, render: Box::new(render), expected: Box::new(|_l: Labels| BTreeSet::new()), modelled: vec!["C31"] }
}

pub fn models() -> Vec<Model> {
    vec![mt103(), mt101(), mt202(), mt205(), mt110(), mt204(), mt210(), mt910(), mt920(), mt935(), mt940(), mt941(), mt942(), mt950(), n92("192", "C25"), direct_debit("104"), direct_debit("107"), mt200(), n9x_copy("292"), n9x_copy("296"), mt196(), mt101_codes(), mt935_fields()]
}

/// types that document no network rule: any reported code is spurious
pub const NO_RULE_TYPES: &[&str] = &["111", "112", "190", "191", "199", "290", "291", "299", "900"];

fn v(l: &mut Local, mt: &str, code: &str, kind: &str, what: String, case: &Case) {
    l.violation(format!("C04|MT{mt}|{code}|{kind}"), what, || serde_json::to_value(case).unwrap());
}

pub fn judge(case: &Case, l: &mut Local) {
    let ops = msg(&case.mt).unwrap();
    let stratum = format!("MT{}", case.mt);
    let body = match guard(|| (ops.body_from_json)(&case.body)) {
        Ok(Ok(b)) => b,
        Ok(Err(e)) => {
            l.eval(&stratum, "not-deserialisable", false, 0);
            l.count(&format!("not-deserialisable:{}", e.chars().take(40).collect::<String>()), 1);
            return;
        }
        Err(_) => {
            l.eval(&stratum, "panic(C07)", false, 0);
            return;
        }
    };
    let Ok(errs) = guard(|| body.validate(false)) else {
        l.eval(&stratum, "panic(C07)", false, 0);
        return;
    };
    let got: BTreeSet<String> = errs.iter().map(|e| e.error_code().to_string()).collect();
    let exp: BTreeSet<String> = case.expected.iter().cloned().collect();
    l.eval(&stratum, &format!("{}-codes", got.len().min(3)), true, hash_str(&case.body.to_string()) ^ hash_str(&case.mt));
    l.count(&format!("codeset:MT{}:{}", case.mt, got.iter().cloned().collect::<Vec<_>>().join("+")), 1);
    for c in &case.modelled {
        if exp.contains(&format!("?{c}")) {
            continue; // the documentation does not settle this code at this point
        }
        match (exp.contains(c), got.contains(c)) {
            (true, false) => v(l, &case.mt, c, "missing", format!("MT{}: the message violates the rule with code {c} (point {:?}) but the code is not reported; reported: {:?}", case.mt, case.point, got), case),
            (false, true) => v(l, &case.mt, c, "spurious", format!("MT{}: code {c} is reported although the message satisfies that rule (point {:?})", case.mt, case.point), case),
            _ => {}
        }
    }
    if case.modelled.is_empty() {
        for c in &got {
            v(l, &case.mt, c, "spurious", format!("MT{}: the type documents no network rule, yet code {c} is reported", case.mt), case);
        }
    }
    // the same point through its MT text (where the text parses): what the parser builds from the text must
    // validate to the same modelled codes (a parser that files a field in another slot changes the verdict)
    if !case.modelled.is_empty()
        && let Ok(text) = guard(|| body.to_mt())
        && let Ok(Ok(b2)) = guard(|| (ops.parse_b4)(&text))
        && b2.json().ok() == body.json().ok()
        && let Ok(errs2) = guard(|| b2.validate(false))
    {
        l.count("text-route-judged", 1);
        let got2: BTreeSet<String> = errs2.iter().map(|e| e.error_code().to_string()).collect();
        for c in &case.modelled {
            if exp.contains(&format!("?{c}")) {
                continue;
            }
            match (exp.contains(c), got2.contains(c)) {
                (true, false) => v(l, &case.mt, c, "missing-after-text-route", format!("MT{}: the message violates the rule with code {c} (point {:?}); validated from its JSON the code is {}, validated after serialising to MT text and parsing again it is not reported; reported: {:?}", case.mt, case.point, if got.contains(c) { "reported" } else { "not reported either" }, got2), case),
                (false, true) => v(l, &case.mt, c, "spurious-after-text-route", format!("MT{}: code {c} is reported after serialising the message to MT text and parsing it again although the message satisfies that rule (point {:?})", case.mt, case.point), case),
                _ => {}
            }
        }
        // ... and through the validate_mt workflow function on the same text (every point with two or more
        // expected codes, one in sixteen of the others): its report must name the same modelled codes
        if (exp.iter().filter(|c| !c.starts_with('?')).count() >= 2 || crate::rng::hash_bytes2(&case.mt, &text) % 16 == 0)
            && let Ok(Ok(pj)) = guard(|| crate::plug::validate_mt(&format!("{{1:F01BANKBEBBAXXX0000000000}}{{2:I{}BANKDEFFXXXXN}}{{4:\n{text}\n-}}", case.mt)))
            && let Some(perrs) = pj["errors"].as_array()
        {
            l.count("plugin-route-judged", 1);
            let lines: Vec<&str> = perrs.iter().filter_map(|e| e.as_str()).collect();
            for c in &case.modelled {
                if exp.contains(&format!("?{c}")) {
                    continue;
                }
                let named = lines.iter().any(|x| x.contains(c.as_str()));
                match (exp.contains(c), named, got2.contains(c)) {
                    (true, false, true) => v(l, &case.mt, c, "missing-in-plugin-report", format!("MT{}: code {c} is reported by validate_network_rules(false) on the parsed text but not by the validate_mt plugin (point {:?}); plugin report: {:?}", case.mt, case.point, lines.iter().map(|x| x.chars().take(60).collect::<String>()).collect::<Vec<_>>()), case),
                    (false, true, false) => v(l, &case.mt, c, "spurious-in-plugin-report", format!("MT{}: code {c} is named by the validate_mt plugin although the message satisfies that rule (point {:?})", case.mt, case.point), case),
                    _ => {}
                }
            }
        }
    }
    // C13 coherence on the same message (full envelope needed: wrap the body in a corpus envelope)
}

fn make_case(m: &Model, choice: &[u16]) -> Case {
    let labels: Vec<&str> = choice.iter().enumerate().map(|(i, c)| m.dims[i].1[*c as usize].as_str()).collect();
    Case {
        mt: m.mt.to_string(),
        point: labels.iter().enumerate().map(|(i, x)| format!("{}={}", m.dims[i].0, x)).collect(),
        body: (m.render)(&labels),
        expected: (m.expected)(&labels).into_iter().collect(),
        modelled: m.modelled.iter().map(|x| x.to_string()).collect(),
    }
}

/// baseline plus all one- and two-dimensional sweeps around it
fn sweeps(m: &Model) -> Vec<Vec<u16>> {
    let sizes: Vec<usize> = m.dims.iter().map(|d| d.1.len()).collect();
    let base = vec![0u16; sizes.len()];
    let mut out = vec![base.clone()];
    for a in 0..sizes.len() {
        for x in 1..sizes[a] {
            let mut c = base.clone();
            c[a] = x as u16;
            out.push(c.clone());
            for b in a + 1..sizes.len() {
                for y in 1..sizes[b] {
                    let mut c2 = c.clone();
                    c2[b] = y as u16;
                    out.push(c2);
                }
            }
        }
    }
    out
}

/// Bodies of the sweep points, for the C13 coherence monitor: (type, body JSON)
pub fn sweep_bodies(max_per_type: usize) -> Vec<(String, Value)> {
    let mut out = Vec::new();
    for m in models() {
        let sw = sweeps(&m);
        // every point that deviates from the baseline in at most one dimension, then an even sample of the
        // two-dimensional ones up to the cap
        let (one, two): (Vec<&Vec<u16>>, Vec<&Vec<u16>>) = sw.iter().partition(|c| c.iter().filter(|x| **x != 0).count() <= 1);
        for c in &one {
            out.push((m.mt.to_string(), make_case(&m, c).body));
        }
        let room = max_per_type.saturating_sub(one.len()).max(max_per_type / 4);
        let step = (two.len() / room.max(1)).max(1);
        for c in two.iter().step_by(step) {
            out.push((m.mt.to_string(), make_case(&m, c).body));
        }
    }
    out
}

pub fn run(cfg: &Config) -> i32 {
    let started = std::time::Instant::now();
    let models = models();
    // points are (model index, choice vector); rendered inside the workers
    let mut points: Vec<(u16, Vec<u16>)> = Vec::new();
    let mut r = Rng::new(cfg.seed, "c04", 0);
    let exhaustive_limit = cfg.tier.pick(60_000usize, 3_000_000usize);
    let random_points = cfg.tier.pick(60_000usize, 2_000_000usize);
    let mut exhaustive_types: Vec<&str> = Vec::new();
    for (mi, m) in models.iter().enumerate() {
        let sizes: Vec<usize> = m.dims.iter().map(|d| d.1.len()).collect();
        assert!(sizes.iter().all(|n| *n < 65536));
        let total: usize = sizes.iter().product();
        if total <= exhaustive_limit {
            exhaustive_types.push(m.mt);
            let mut choice = vec![0u16; sizes.len()];
            loop {
                points.push((mi as u16, choice.clone()));
                let mut k = 0;
                while k < sizes.len() {
                    choice[k] += 1;
                    if (choice[k] as usize) < sizes[k] {
                        break;
                    }
                    choice[k] = 0;
                    k += 1;
                }
                if k == sizes.len() {
                    break;
                }
            }
        } else {
            for c in sweeps(m) {
                points.push((mi as u16, c));
            }
            for _ in 0..random_points {
                points.push((mi as u16, sizes.iter().map(|n| r.below(*n) as u16).collect()));
            }
        }
    }
    // types without documented rules: corpus messages and JSON-surgery variants must report nothing
    let corpus = Corpus::load(&cfg.verif_dir);
    let mut norule: Vec<Case> = Vec::new();
    for mt in NO_RULE_TYPES {
        let ops = msg(mt).unwrap();
        let mut pool = crate::surgery::LeafPool::default();
        let mut docs = Vec::new();
        for e in corpus.of_type(mt) {
            if let Some(b4) = crate::corpus::block4_of(&e.text)
                && let Ok(Ok(b)) = guard(|| (ops.parse_b4)(&b4))
                && let Ok(j) = b.json()
            {
                pool.add(&j);
                docs.push(j);
            }
        }
        for (di, d) in docs.iter().enumerate() {
            norule.push(Case { mt: mt.to_string(), point: vec!["corpus".into()], body: d.clone(), expected: vec![], modelled: vec![] });
            for k in 0..cfg.tier.pick(60usize, 1500usize) {
                let mut rr = Rng::new(cfg.seed, &format!("c04-norule:{mt}"), (di * 10_000 + k) as u64);
                let mut j = d.clone();
                let mut labs = Vec::new();
                for _ in 0..1 + rr.below(3) {
                    if let Some(x) = crate::surgery::random_edit(&mut j, &[], &pool, &mut rr) {
                        labs.push(x.to_string());
                    }
                }
                norule.push(Case { mt: mt.to_string(), point: labs, body: j, expected: vec![], modelled: vec![] });
            }
        }
    }
    let np = points.len() as u64;
    let n = np + norule.len() as u64;
    let total = par_for(cfg, n, |i, l| {
        let made;
        let case = if i < np {
            let (mi, c) = &points[i as usize];
            made = make_case(&models[*mi as usize], c);
            &made
        } else {
            &norule[(i - np) as usize]
        };
        let lab = format!("MT{}", case.mt);
        if l.want_sample(&lab) {
            l.sample(&lab, json!({"point": case.point, "expected": case.expected}));
        }
        judge(case, l);
    });
    let mut rep = Report::default();
    let ncodesets = total.counters.keys().filter(|k| k.starts_with("codeset:")).count();
    rep.extra.insert("distinct_error_code_sets".into(), json!(ncodesets));
    rep.extra.insert("exhaustive_types".into(), json!(exhaustive_types));
    rep.extra.insert("modelled_codes".into(), json!(models.iter().map(|m| (format!("MT{}", m.mt), m.modelled.clone())).collect::<std::collections::BTreeMap<_, _>>()));
    rep.rule = "cases = abstract points of the rule-relevant dimensions of each modelled type (presence / absence of every field a rule mentions per sequence, every code value the tables distinguish incl. all ordered pairs of 23E codes, equal / different currencies, matching / non-matching sums, repetition counts around each limit), rendered by JSON surgery on a valid message: exhaustive product where it is small enough (listed in exhaustive_types), otherwise all one- and two-dimensional sweeps around the rule-clean baseline plus seeded random points; plus corpus messages and JSON-surgery variants of the nine types that document no rule. Non-trivial = the message deserialised and was validated; distinct = distinct rendered messages".into();
    rep.assumptions = vec![
        "trusted base: the per-type rule predicates of this file, restated from the rule text of SR2025 / the doc comments (codes listed in modelled_codes); codes outside the model are not judged".into(),
        "code sets are compared, not multiplicities".into(),
    ];
    rep.required_strata = models.iter().map(|m| format!("MT{}", m.mt)).chain(NO_RULE_TYPES.iter().map(|m| format!("MT{m}"))).collect();
    rep.min_evals = 1000;
    finish(cfg, started, total, rep)
}

pub fn replay(_cfg: &Config, case: &Value) -> Local {
    let mut l = Local::default();
    let c: Case = serde_json::from_value(case.clone()).expect("C04 case");
    judge(&c, &mut l);
    l
}
