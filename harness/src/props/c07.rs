//! C07 — Parsing is total: any input gives a value or an error, never a panic or hang.
//!
//! Monitor: every public entry point is called under `catch_unwind` with a panic hook that
//! captures the panic location; every value that comes back is pushed through serialisation,
//! validation, JSON conversion and error rendering. A panic is a violation keyed by
//! `C07|<file>::<enclosing fn>|<panic class>|<ascii|non-ascii>`.
//! Time: size ramps measured in thread CPU time (logical, not wall clock), see `ramps`.

use crate::corpus::{self, Corpus};
use crate::gen_ as g;
use crate::monitor::*;
use crate::registry::{FIELDS, MESSAGES};
use crate::rng::{Rng, hash_bytes2, hash_str};
use crate::tok;
use serde::{Deserialize, Serialize};
use serde_json::{Value, json};
use swift_mt_message::errors::ParseError;
use swift_mt_message::headers::{ApplicationHeader, BasicHeader, Trailer, UserHeader};
use swift_mt_message::parser::{
    FieldConsumptionTracker, find_field_with_variant_sequential_constrained,
    find_field_with_variant_sequential_numbered, get_sequence_config, normalize_field_tag, parse_block4_fields,
    split_into_sequences,
};
use swift_mt_message::{SwiftParser, extract_base_tag};

#[derive(Clone, Debug, Serialize, Deserialize)]
pub enum Case {
    /// all message-level entry points on a full message text
    Full { text: String },
    /// typed block-4 parse for one type
    Block4 { mt: String, text: String },
    /// one field type on a content string, optionally with a variant letter
    Field { ty: String, input: String, variant: Option<String> },
    /// header parsers: which = 1,2,3,5
    Header { which: u8, text: String },
    /// legacy field-map API on a block-4 text
    Legacy { text: String },
    /// JSON text to SwiftMessage<T>
    Json { mt: String, text: String },
    /// the public helper functions of `fields::swift_utils` / `fields::field_utils` / `utils` /
    /// `swift_error_codes` on one hostile string
    Helper { input: String },
    /// a ParseError value built through its public fields (they are all public and the type is
    /// deserialisable) rendered against an original text
    ErrorRender { variant: String, position: u64, original: String },
}

fn report_panic(cfg: &Config, l: &mut Local, entry: &str, p: &PanicInfo, input: &str, case: &Case) {
    let site = site_of(&cfg.repo_dir, p);
    let key = format!("C07|{}|{}|{}", site, panic_class(p), is_ascii_class(input));
    let what = format!(
        "panic ({}) in {} reached via {} on {} input: {}",
        panic_class(p),
        site,
        entry,
        is_ascii_class(input),
        p.msg.chars().take(120).collect::<String>()
    );
    l.violation(key, what, || serde_json::to_value(case).unwrap());
}

macro_rules! g {
    ($cfg:expr, $l:expr, $entry:expr, $input:expr, $case:expr, $e:expr) => {
        match guard(|| $e) {
            Ok(v) => Some(v),
            Err(p) => {
                report_panic($cfg, $l, $entry, &p, $input, $case);
                None
            }
        }
    };
}

fn render_error(cfg: &Config, l: &mut Local, e: &ParseError, original: &str, case: &Case) {
    g!(cfg, l, "ParseError::Display", original, case, e.to_string());
    g!(cfg, l, "ParseError::debug_report", original, case, e.debug_report());
    g!(cfg, l, "ParseError::brief_message", original, case, e.brief_message());
    g!(cfg, l, "ParseError::format_with_context", original, case, e.format_with_context(original));
    g!(cfg, l, "ParseError::Debug", original, case, format!("{e:?}"));
}

fn exercise_full(cfg: &Config, l: &mut Local, m: &dyn crate::registry::Full, input: &str, case: &Case) {
    g!(cfg, l, "to_mt_message", input, case, m.to_mt_message());
    g!(cfg, l, "validate", input, case, m.validate());
    g!(cfg, l, "validate_network_rules(true)", input, case, m.body().validate(true));
    g!(cfg, l, "validate_network_rules(false)", input, case, m.body().validate(false));
    g!(cfg, l, "to_mt_string", input, case, m.body().to_mt());
    g!(cfg, l, "has_reject_codes", input, case, m.has_reject_codes());
    g!(cfg, l, "has_return_codes", input, case, m.has_return_codes());
    g!(cfg, l, "is_cover_message", input, case, m.is_cover_message());
    g!(cfg, l, "is_stp_message", input, case, m.is_stp_message());
    g!(cfg, l, "Debug", input, case, m.dbg());
    if let Some(Ok(j)) = g!(cfg, l, "to_value", input, case, m.json()) {
        let code = m.message_type();
        if let Some(ops) = crate::registry::msg(&code) {
            g!(cfg, l, "from_value", input, case, (ops.full_from_json)(&j));
        }
    }
}

pub fn judge(cfg: &Config, case: &Case, l: &mut Local) {
    match case {
        Case::Full { text } => {
            let mut outcome = "err";
            match g!(cfg, l, "SwiftParser::parse_auto", text, case, SwiftParser::parse_auto(text)) {
                Some(Ok(p)) => {
                    outcome = "ok";
                    g!(cfg, l, "ParsedSwiftMessage::validate", text, case, p.validate());
                    g!(cfg, l, "ParsedSwiftMessage::message_type", text, case, p.message_type());
                    g!(cfg, l, "ParsedSwiftMessage::to_value", text, case, serde_json::to_value(&p));
                    g!(cfg, l, "ParsedSwiftMessage::Debug", text, case, format!("{p:?}"));
                    let code = p.message_type();
                    if let Some(ops) = crate::registry::msg(code)
                        && let Some(Ok(m)) = g!(cfg, l, "SwiftParser::parse::<T>", text, case, (ops.parse_full)(text))
                    {
                        exercise_full(cfg, l, m.as_ref(), text, case);
                    }
                }
                Some(Err(e)) => render_error(cfg, l, &e, text, case),
                None => outcome = "panic",
            }
            // typed parse as a fixed other type, and the error-collecting variant
            let other = &MESSAGES[(hash_str(text) % MESSAGES.len() as u64) as usize];
            if let Some(Err(e)) = g!(cfg, l, "SwiftParser::parse::<other>", text, case, (other.parse_full)(text)) {
                render_error(cfg, l, &e, text, case);
            }
            if let Some(Err(e)) = g!(
                cfg,
                l,
                "SwiftParser::parse_with_errors",
                text,
                case,
                (other.parse_full_with_errors)(text)
            ) {
                render_error(cfg, l, &e, text, case);
            }
            for i in 0u8..=6 {
                if let Some(Err(e)) = g!(cfg, l, "SwiftParser::extract_block", text, case, SwiftParser::extract_block(text, i)) {
                    render_error(cfg, l, &e, text, case);
                }
            }
            g!(cfg, l, "parser::extract_block4", text, case, swift_mt_message::parser::extract_block4(text));
            g!(cfg, l, "plugin::Parse", text, case, crate::plug::parse_mt(text));
            g!(cfg, l, "plugin::Validate", text, case, crate::plug::validate_mt(text));
            l.eval(
                &format!("full:{}", is_ascii_class(text)),
                outcome,
                true,
                hash_bytes2("full", text),
            );
        }
        Case::Block4 { mt, text } => {
            let ops = crate::registry::msg(mt).expect("type");
            let mut outcome = "err";
            match g!(cfg, l, "parse_from_block4", text, case, (ops.parse_b4)(text)) {
                Some(Ok(b)) => {
                    outcome = "ok";
                    g!(cfg, l, "to_mt_string", text, case, b.to_mt());
                    g!(cfg, l, "validate_network_rules(false)", text, case, b.validate(false));
                    g!(cfg, l, "validate_network_rules(true)", text, case, b.validate(true));
                    g!(cfg, l, "Debug", text, case, b.dbg());
                    if let Some(Ok(j)) = g!(cfg, l, "to_value", text, case, b.json()) {
                        g!(cfg, l, "from_value", text, case, (ops.body_from_json)(&j));
                    }
                }
                Some(Err(e)) => render_error(cfg, l, &e, text, case),
                None => outcome = "panic",
            }
            l.eval(
                &format!("block4:{}:{}", mt, is_ascii_class(text)),
                outcome,
                true,
                hash_bytes2(mt, text),
            );
        }
        Case::Field { ty, input, variant } => {
            let ops = crate::registry::field(ty).expect("field type");
            let r = match variant {
                None => g!(cfg, l, "SwiftField::parse", input, case, (ops.parse)(input)),
                Some(v) => g!(
                    cfg,
                    l,
                    "SwiftField::parse_with_variant",
                    input,
                    case,
                    (ops.parse_variant)(input, Some(v.as_str()), None)
                ),
            };
            let mut outcome = "err";
            match r {
                Some(Ok(v)) => {
                    outcome = "ok";
                    g!(cfg, l, "to_swift_string", input, case, v.to_swift());
                    g!(cfg, l, "get_variant_tag", input, case, v.variant_tag());
                    g!(cfg, l, "Debug", input, case, v.dbg());
                    if let Some(Ok(j)) = g!(cfg, l, "to_value", input, case, v.json()) {
                        g!(cfg, l, "from_value", input, case, (ops.from_json)(&j));
                    }
                }
                Some(Err(e)) => render_error(cfg, l, &e, input, case),
                None => outcome = "panic",
            }
            l.eval(
                &format!("field:{}:{}", ty, is_ascii_class(input)),
                outcome,
                true,
                hash_bytes2(ty, input) ^ hash_str(variant.as_deref().unwrap_or("-")),
            );
        }
        Case::Header { which, text } => {
            let mut outcome = "err";
            macro_rules! hdr {
                ($t:ty, $name:expr) => {
                    match g!(cfg, l, $name, text, case, <$t>::parse(text)) {
                        Some(Ok(h)) => {
                            outcome = "ok";
                            g!(cfg, l, concat!("Display ", stringify!($t)), text, case, h.to_string());
                            g!(cfg, l, concat!("Debug ", stringify!($t)), text, case, format!("{h:?}"));
                            if let Some(Ok(j)) = g!(cfg, l, "to_value", text, case, serde_json::to_value(&h)) {
                                g!(cfg, l, "from_value", text, case, serde_json::from_value::<$t>(j));
                            }
                        }
                        Some(Err(e)) => render_error(cfg, l, &e, text, case),
                        None => outcome = "panic",
                    }
                };
            }
            match which {
                1 => hdr!(BasicHeader, "BasicHeader::parse"),
                2 => hdr!(ApplicationHeader, "ApplicationHeader::parse"),
                3 => hdr!(UserHeader, "UserHeader::parse"),
                _ => hdr!(Trailer, "Trailer::parse"),
            }
            l.eval(
                &format!("header{}:{}", which, is_ascii_class(text)),
                outcome,
                true,
                hash_bytes2("hdr", text) ^ (*which as u64),
            );
        }
        Case::Helper { input } => {
            use swift_mt_message::fields::field_utils as fu;
            use swift_mt_message::fields::swift_utils as su;
            let i = input.as_str();
            g!(cfg, l, "swift_utils::parse_exact_length", i, case, su::parse_exact_length(i, 6, "f"));
            g!(cfg, l, "swift_utils::parse_max_length", i, case, su::parse_max_length(i, 35, "f"));
            g!(cfg, l, "swift_utils::parse_length_range", i, case, su::parse_length_range(i, 1, 16, "f"));
            g!(cfg, l, "swift_utils::parse_alphanumeric", i, case, su::parse_alphanumeric(i, "f"));
            g!(cfg, l, "swift_utils::parse_uppercase", i, case, su::parse_uppercase(i, "f"));
            g!(cfg, l, "swift_utils::parse_numeric", i, case, su::parse_numeric(i, "f"));
            g!(cfg, l, "swift_utils::parse_swift_digits", i, case, su::parse_swift_digits(i, "f"));
            g!(cfg, l, "swift_utils::parse_swift_chars", i, case, su::parse_swift_chars(i, "f"));
            g!(cfg, l, "swift_utils::parse_bic", i, case, su::parse_bic(i));
            g!(cfg, l, "swift_utils::parse_account", i, case, su::parse_account(i));
            g!(cfg, l, "swift_utils::get_currency_decimals", i, case, su::get_currency_decimals(i));
            g!(cfg, l, "swift_utils::validate_non_commodity_currency", i, case, su::validate_non_commodity_currency(i));
            g!(cfg, l, "swift_utils::parse_currency", i, case, su::parse_currency(i));
            g!(cfg, l, "swift_utils::parse_currency_non_commodity", i, case, su::parse_currency_non_commodity(i));
            g!(cfg, l, "swift_utils::parse_amount", i, case, su::parse_amount(i));
            for ccy in ["EUR", "JPY", "KWD", "CLF", i] {
                g!(cfg, l, "swift_utils::parse_amount_with_currency", i, case, su::parse_amount_with_currency(i, ccy));
                if let Some(Ok(a)) = g!(cfg, l, "swift_utils::parse_amount", i, case, su::parse_amount(i)) {
                    g!(cfg, l, "swift_utils::validate_amount_decimals", i, case, su::validate_amount_decimals(a, ccy));
                    g!(cfg, l, "swift_utils::format_swift_amount_for_currency", i, case, su::format_swift_amount_for_currency(a, ccy));
                }
            }
            g!(cfg, l, "swift_utils::parse_date_yymmdd", i, case, su::parse_date_yymmdd(i));
            g!(cfg, l, "swift_utils::parse_date_yyyymmdd", i, case, su::parse_date_yyyymmdd(i));
            g!(cfg, l, "swift_utils::parse_time_hhmm", i, case, su::parse_time_hhmm(i));
            g!(cfg, l, "swift_utils::parse_datetime_yymmddhhmm", i, case, su::parse_datetime_yymmddhhmm(i));
            g!(cfg, l, "swift_utils::parse_reference", i, case, su::parse_reference(i));
            g!(cfg, l, "swift_utils::split_at_first", i, case, su::split_at_first(i, '/'));
            g!(cfg, l, "swift_utils::split_at_newline", i, case, su::split_at_newline(i));
            g!(cfg, l, "swift_utils::normalize_text", i, case, su::normalize_text(i));
            g!(cfg, l, "swift_utils::validate_iban", i, case, su::validate_iban(i));
            g!(cfg, l, "field_utils::parse_payment_method", i, case, fu::parse_payment_method(i).map(|x| x.as_str()));
            g!(cfg, l, "field_utils::parse_field_tag", i, case, fu::parse_field_tag(i));
            g!(cfg, l, "field_utils::is_numbered_line", i, case, fu::is_numbered_line(i));
            g!(cfg, l, "field_utils::extract_field_number", i, case, fu::extract_field_number(i));
            g!(cfg, l, "field_utils::parse_party_identifier", i, case, fu::parse_party_identifier(i));
            g!(cfg, l, "field_utils::extract_field_option", i, case, fu::extract_field_option(i));
            g!(cfg, l, "field_utils::parse_field_with_suffix", i, case, fu::parse_field_with_suffix(i));
            g!(cfg, l, "field_utils::parse_multiline_text", i, case, fu::parse_multiline_text(i, 4, 35));
            let lines: Vec<&str> = i.split('\n').collect();
            g!(cfg, l, "field_utils::parse_numbered_lines", i, case, fu::parse_numbered_lines(&lines));
            g!(cfg, l, "field_utils::validate_multiline_text", i, case, fu::validate_multiline_text(&lines, 4, 35, "f"));
            for start in [0usize, 1, 2, lines.len(), lines.len() + 1] {
                g!(cfg, l, "field_utils::parse_name_and_address", i, case, fu::parse_name_and_address(&lines, start, "f"));
            }
            g!(cfg, l, "field_utils::validate_field_option", i, case, fu::validate_field_option(i, i.chars().next(), &['A', 'K']));
            if let Some(c) = i.chars().next() {
                g!(cfg, l, "field_utils::parse_debit_credit_mark", i, case, fu::parse_debit_credit_mark(c));
            }
            g!(cfg, l, "utils::get_field_tag_with_variant", i, case, swift_mt_message::utils::get_field_tag_with_variant(i, Some(i)));
            g!(cfg, l, "utils::get_field_tag_for_mt", i, case, swift_mt_message::utils::get_field_tag_for_mt(i, i));
            g!(cfg, l, "utils::is_numbered_field", i, case, swift_mt_message::utils::is_numbered_field(i));
            g!(cfg, l, "extract_base_tag", i, case, extract_base_tag(i).to_string());
            g!(cfg, l, "normalize_field_tag", i, case, normalize_field_tag(i).to_string());
            g!(cfg, l, "get_sequence_config", i, case, { let _ = get_sequence_config(i); });
            {
                use swift_mt_message::swift_codes as sc;
                g!(cfg, l, "swift_error_codes::get_error_info", i, case, sc::metadata::get_error_info(i).map(|x| format!("{x:?}")));
                g!(cfg, l, "swift_error_codes::get_codes_by_series", i, case, sc::metadata::get_codes_by_series(i).len());
                g!(cfg, l, "swift_error_codes::get_codes_by_category", i, case, sc::metadata::get_codes_by_category(i).len());
                g!(cfg, l, "swift_error_codes::is_sepa_country", i, case, sc::regional::is_sepa_country(i));
                g!(cfg, l, "swift_error_codes::is_valid_charge_code", i, case, sc::charges::is_valid_charge_code(i));
                g!(cfg, l, "swift_error_codes::is_commodity_currency", i, case, sc::currencies::is_commodity_currency(i));
            }
            l.eval("helpers", "called", true, hash_str(i));
        }
        Case::ErrorRender { variant, position, original } => {
            let p = *position as usize;
            let ffe = |pos: Option<usize>| {
                ParseError::InvalidFieldFormat(Box::new(swift_mt_message::errors::InvalidFieldFormatError {
                    field_tag: "32A".into(),
                    component_name: "amount".into(),
                    value: "1é0,00".into(),
                    format_spec: "15d".into(),
                    position: pos,
                    inner_error: "bad".into(),
                }))
            };
            let fpf = ParseError::FieldParsingFailed { field_tag: "20".into(), field_type: "Field20".into(), position: p, original_error: "bad é".into() };
            let e = match variant.as_str() {
                "FieldParsingFailed" => fpf,
                "InvalidFieldFormat" => ffe(Some(p)),
                "MissingRequiredField" => ParseError::MissingRequiredField { field_tag: "20".into(), field_name: "field_20".into(), message_type: "103".into(), position_in_block4: Some(p) },
                _ => ParseError::MultipleErrors(vec![fpf, ffe(Some(p)), ffe(None)]),
            };
            render_error(cfg, l, &e, original, case);
            // and through serde, as an application that stores errors would see it
            if let Some(Ok(j)) = g!(cfg, l, "serde_json::to_string(ParseError)", original, case, serde_json::to_string(&e))
                && let Some(Ok(e2)) = g!(cfg, l, "serde_json::from_str::<ParseError>", original, case, serde_json::from_str::<ParseError>(&j))
            {
                render_error(cfg, l, &e2, original, case);
            }
            l.eval(&format!("error-render:{variant}"), "rendered", true, hash_bytes2(variant, &format!("{position}:{original}")));
        }
        Case::Legacy { text } => {
            let mut outcome = "err";
            match g!(cfg, l, "parse_block4_fields", text, case, parse_block4_fields(text)) {
                Some(Ok(map)) => {
                    outcome = "ok";
                    for mt in ["MT101", "MT104", "MT107", "MT110", "MT204", "MT935", "MT000"] {
                        let c = get_sequence_config(mt);
                        g!(cfg, l, "split_into_sequences", text, case, split_into_sequences(&map, &c).map(|_| ()));
                    }
                    g!(
                        cfg,
                        l,
                        "parse_repetitive_sequence",
                        text,
                        case,
                        swift_mt_message::parser::parse_repetitive_sequence::<swift_mt_message::messages::MT101>(&map, "21")
                            .map(|v| v.len())
                    );
                    // the generic sequence parser with several body types (fresh tracker each)
                    {
                        use swift_mt_message::messages::{MT101, MT104, MT110, MT199, MT204, MT920, MT935, MT940, MT942};
                        use swift_mt_message::parser::parse_sequences;
                        macro_rules! ps {
                            ($t:ty) => {{
                                let mut t0 = FieldConsumptionTracker::new();
                                g!(cfg, l, concat!("parse_sequences::<", stringify!($t), ">"), text, case, parse_sequences::<$t>(&map, &mut t0).map(|v| v.len()));
                            }};
                        }
                        ps!(MT101);
                        ps!(MT104);
                        ps!(MT110);
                        ps!(MT199);
                        ps!(MT204);
                        ps!(MT920);
                        ps!(MT935);
                        ps!(MT940);
                        ps!(MT942);
                    }
                    let mut tr = FieldConsumptionTracker::new();
                    let tags: Vec<String> = map.keys().cloned().collect();
                    for t in tags.iter().take(40) {
                        let base = extract_base_tag(t).to_string();
                        g!(
                            cfg,
                            l,
                            "find_field_with_variant_sequential_constrained",
                            text,
                            case,
                            find_field_with_variant_sequential_constrained(&map, &base, &mut tr, None)
                        );
                        g!(
                            cfg,
                            l,
                            "find_field_with_variant_sequential_numbered",
                            text,
                            case,
                            find_field_with_variant_sequential_numbered(&map, &base, &mut tr, Some(vec!["A", "K"]), "50#1")
                        );
                        if let Some(vals) = map.get(t) {
                            g!(cfg, l, "get_next_available", text, case, tr.get_next_available(t, vals).map(|x| x.1));
                        }
                    }
                }
                Some(Err(e)) => render_error(cfg, l, &e, text, case),
                None => outcome = "panic",
            }
            // tag helpers on every line prefix that looks like a tag, and on the raw text
            for piece in text.split(':').take(50) {
                g!(cfg, l, "normalize_field_tag", piece, case, normalize_field_tag(piece).to_string());
                g!(cfg, l, "extract_base_tag", piece, case, extract_base_tag(piece).to_string());
                g!(cfg, l, "utils::is_numbered_field", piece, case, swift_mt_message::is_numbered_field(piece));
                g!(
                    cfg,
                    l,
                    "utils::get_field_tag_with_variant",
                    piece,
                    case,
                    swift_mt_message::get_field_tag_with_variant(piece, Some(piece))
                );
                g!(cfg, l, "utils::get_field_tag_for_mt", piece, case, swift_mt_message::get_field_tag_for_mt(piece, piece));
                g!(cfg, l, "utils::map_variant_to_numbered", piece, case, swift_mt_message::map_variant_to_numbered(piece));
            }
            g!(
                cfg,
                l,
                "extract_field_content",
                text,
                case,
                swift_mt_message::parser::extract_field_content(text, "20")
            );
            l.eval(
                &format!("legacy:{}", is_ascii_class(text)),
                outcome,
                true,
                hash_bytes2("legacy", text),
            );
        }
        Case::Json { mt, text } => {
            let ops = crate::registry::msg(mt).expect("type");
            let mut outcome = "err";
            if let Some(Ok(m)) = g!(cfg, l, "serde_json::from_str::<SwiftMessage<T>>", text, case, (ops.full_from_str)(text)) {
                outcome = "ok";
                exercise_full(cfg, l, m.as_ref(), text, case);
            }
            if let Ok(v) = serde_json::from_str::<Value>(text) {
                g!(cfg, l, "plugin::Publish", text, case, crate::plug::publish_json(&v));
            }
            l.eval(
                &format!("json:{}:{}", mt, is_ascii_class(text)),
                outcome,
                true,
                hash_bytes2(mt, text),
            );
        }
    }
}

// ---------------------------------------------------------------------------------------------
// Workload

struct Work {
    fulls: Vec<String>,
    b4: Vec<(String, String)>,
    fields: Vec<(String, String)>,
    headers: Vec<(u8, String)>,
    jsons: Vec<(String, String)>,
}

fn field_types_for_tag(tag: &str) -> Vec<&'static str> {
    let num = &tag[..2];
    FIELDS
        .iter()
        .filter(|f| f.name.strip_prefix("Field").map(|r| r.starts_with(num)).unwrap_or(false))
        .map(|f| f.name)
        .collect()
}

fn build(cfg: &Config) -> Work {
    let c = Corpus::load(&cfg.verif_dir);
    let mut w = Work {
        fulls: vec![],
        b4: vec![],
        fields: vec![],
        headers: vec![],
        jsons: vec![],
    };
    let per_type = cfg.tier.pick(4usize, 40usize);
    let mut taken: std::collections::HashMap<String, usize> = Default::default();
    // rotate by seed so different seeds start from different corpus members
    let n = c.entries.len();
    for k in 0..n {
        let e = &c.entries[(k + (cfg.seed as usize * 7919) % n) % n];
        let t = taken.entry(e.mt.clone()).or_insert(0);
        if *t >= per_type {
            continue;
        }
        *t += 1;
        w.fulls.push(e.text.clone());
        if let Some(blocks) = tok::split_blocks(&e.text) {
            for (id, content) in blocks {
                match id.as_str() {
                    "1" => w.headers.push((1, content)),
                    "2" => w.headers.push((2, content)),
                    "3" => w.headers.push((3, content)),
                    "5" => w.headers.push((5, content)),
                    "4" => w.b4.push((e.mt.clone(), content)),
                    _ => {}
                }
            }
        }
        if let Ok(m) = (crate::registry::msg(&e.mt).unwrap().parse_full)(&e.text)
            && let Ok(j) = m.json()
        {
            w.jsons.push((e.mt.clone(), j.to_string()));
        }
    }
    w.headers.sort();
    w.headers.dedup();
    w.fields = corpus::field_contents(&c);
    w
}

/// Mutations of `s`: (label, mutated)
fn mutations(s: &str, r: &mut Rng, n_subst: usize, n_trunc: usize, exhaustive_positions: bool) -> Vec<(String, String)> {
    let mut out = Vec::new();
    let n = g::char_len(s);
    out.push(("orig".to_string(), s.to_string()));
    if n == 0 {
        for (ch, lab) in g::HOSTILE {
            out.push((format!("ins:{lab}"), ch.to_string()));
        }
        return out;
    }
    if exhaustive_positions {
        for idx in 0..n {
            for (ch, lab) in g::HOSTILE {
                out.push((format!("subst:{lab}"), g::subst_char(s, idx, *ch)));
            }
        }
        for off in 0..s.len() {
            out.push(("trunc".to_string(), g::truncate_at(s, off)));
        }
    } else {
        for _ in 0..n_subst {
            let idx = r.below(n);
            let (ch, lab) = *r.pick(g::HOSTILE);
            out.push((format!("subst:{lab}"), g::subst_char(s, idx, ch)));
        }
        for _ in 0..n_trunc {
            out.push(("trunc".to_string(), g::truncate_at(s, r.below(s.len()))));
        }
    }
    // insert / delete / duplicate line / random tail
    for _ in 0..(n_subst / 4).max(1) {
        let idx = r.below(n + 1);
        let (ch, lab) = *r.pick(g::HOSTILE);
        out.push((format!("ins:{lab}"), g::insert_char(s, idx, ch)));
        out.push(("del".to_string(), g::delete_char(s, r.below(n))));
        let ascii_junk = *r.pick(&[':', '/', '-', '{', '}', '\n', '\r', ',', '.', '+', ' ', '0', 'Z', 'a']);
        out.push(("subst:ascii".to_string(), g::subst_char(s, r.below(n), ascii_junk)));
        out.push(("ins:ascii".to_string(), g::insert_char(s, r.below(n + 1), ascii_junk)));
    }
    out
}

pub fn run(cfg: &Config) -> i32 {
    let started = std::time::Instant::now();
    let w = build(cfg);
    let quick = cfg.tier == Tier::Quick;
    let mut cases: Vec<(String, Case)> = Vec::new();
    let mut r = Rng::new(cfg.seed, "c07-build", 0);

    for t in &w.fulls {
        let (ns, nt) = if quick { (24, 12) } else { (200, 100) };
        for (lab, m) in mutations(t, &mut r, ns, nt, false) {
            cases.push((format!("full/{lab}"), Case::Full { text: m }));
        }
    }
    // block 4 as its own and as every other type
    for (i, (mt, b)) in w.b4.iter().enumerate() {
        for ops in MESSAGES {
            if ops.code == mt || i % cfg.tier.pick(8, 1) == 0 {
                cases.push((
                    "block4/orig".into(),
                    Case::Block4 {
                        mt: ops.code.to_string(),
                        text: b.clone(),
                    },
                ));
            }
        }
        let (ns, nt) = if quick { (16, 8) } else { (120, 60) };
        for (lab, m) in mutations(b, &mut r, ns, nt, false) {
            cases.push((format!("block4/{lab}"), Case::Block4 { mt: mt.clone(), text: m.clone() }));
            if lab != "orig" {
                cases.push((format!("legacy/{lab}"), Case::Legacy { text: m }));
            }
        }
        cases.push(("legacy/orig".into(), Case::Legacy { text: b.clone() }));
    }
    // headers: exhaustive single-position mutations (they are short)
    for (which, h) in &w.headers {
        let exhaustive = !quick || h.len() < 60;
        for (lab, m) in mutations(h, &mut r, 16, 8, exhaustive) {
            cases.push((format!("header{which}/{lab}"), Case::Header { which: *which, text: m }));
        }
    }
    // fields: each corpus content through every field type sharing its number; mutated
    let stride = cfg.tier.pick(5, 1);
    for (i, (tag, content)) in w.fields.iter().enumerate() {
        let tys = field_types_for_tag(tag);
        let letter = tag.get(2..3).map(|s| s.to_string());
        let exhaustive = content.len() <= cfg.tier.pick(24, 80) && i % stride == 0;
        let muts = if i % stride == 0 {
            mutations(content, &mut r, 6, 3, exhaustive)
        } else {
            vec![("orig".to_string(), content.clone())]
        };
        for (lab, m) in muts {
            for ty in &tys {
                cases.push((
                    format!("field/{lab}"),
                    Case::Field {
                        ty: ty.to_string(),
                        input: m.clone(),
                        variant: None,
                    },
                ));
                if let Some(lt) = &letter {
                    cases.push((
                        format!("field-variant/{lab}"),
                        Case::Field {
                            ty: ty.to_string(),
                            input: m.clone(),
                            variant: Some(lt.clone()),
                        },
                    ));
                }
            }
        }
    }
    // every field type on generic hostile strings (covers types absent from the corpus)
    let generic: Vec<String> = {
        let mut v: Vec<String> = vec![
            "".into(),
            " ".into(),
            "\n".into(),
            "/".into(),
            "//".into(),
            "/\n".into(),
            "é".into(),
            "€€€€€€€€€€€€€€€€€€€€".into(),
            "٣٣٣٣٣٣".into(),
            "３３３３３３USD1,".into(),
            "250101USD1,".into(),
            "C250101USD1,".into(),
            "1/A\n2/B\n3/C".into(),
            "/ACC\nBANKDEFFXXX".into(),
            "940".into(),
            "0".repeat(200),
            "A".repeat(200),
            "\n".repeat(50),
            "/".repeat(50),
            "😀".repeat(12),
        ];
        for k in 0..cfg.tier.pick(40, 400) {
            let len = 1 + (k % 40);
            v.push(g::random_mixed(&mut r, len));
        }
        v
    };
    for f in FIELDS {
        for s in &generic {
            cases.push((
                "field/generic".into(),
                Case::Field {
                    ty: f.name.to_string(),
                    input: s.clone(),
                    variant: None,
                },
            ));
        }
        for lt in ["A", "B", "C", "D", "F", "G", "H", "K", "L", "M", "P", "R", "S", "", "é"] {
            cases.push((
                "field-variant/generic".into(),
                Case::Field {
                    ty: f.name.to_string(),
                    input: generic[(hash_str(f.name) as usize + lt.len()) % generic.len()].clone(),
                    variant: Some(lt.to_string()),
                },
            ));
        }
    }
    // JSON texts
    for (mt, j) in &w.jsons {
        let (ns, nt) = if quick { (10, 5) } else { (80, 40) };
        for (lab, m) in mutations(j, &mut r, ns, nt, false) {
            cases.push((format!("json/{lab}"), Case::Json { mt: mt.clone(), text: m }));
        }
    }
    // systematic (seed-independent) strata: every string leaf of the message JSON with a hostile
    // character at its first / second / third / last position, emptied, and made long
    {
        let mut seen_mt: std::collections::HashMap<String, usize> = Default::default();
        for (mt, j) in &w.jsons {
            let k = seen_mt.entry(mt.clone()).or_insert(0);
            *k += 1;
            if *k > cfg.tier.pick(2, 6) {
                continue;
            }
            let v: Value = serde_json::from_str(j).unwrap();
            let mut paths = Vec::new();
            leaf_paths(&v, &mut Vec::new(), &mut paths);
            for path in paths {
                // numeric leaves: magnitudes and precisions no MT text could have carried (they arrive by JSON only)
                if let Some(Value::Number(_)) = get_path(&v, &path) {
                    for nv in [1234567890123.45f64, 123456789012.345, 99999999999999.99, 999999999999999.0, 1e15, 1e17, 1e300, 1e-7, 0.000123, -1.5, -0.0, 0.1 + 0.2, 4503599627370497.5] {
                        let mut v2 = v.clone();
                        set_path(&mut v2, &path, serde_json::json!(nv));
                        cases.push(("json/number-systematic".into(), Case::Json { mt: mt.clone(), text: v2.to_string() }));
                    }
                    continue;
                }
                let Some(Value::String(orig)) = get_path(&v, &path) else { continue };
                let n = g::char_len(orig);
                let mut variants: Vec<String> = vec![String::new(), format!("{}{}", orig, "X".repeat(300))];
                let mut idxs = vec![0usize, 1, 2, 3, n.saturating_sub(1)];
                idxs.dedup();
                for idx in idxs {
                    if idx < n {
                        for ch in ['é', '３', '😀'] {
                            variants.push(g::subst_char(orig, idx, ch));
                        }
                    }
                }
                for nv in variants {
                    let mut v2 = v.clone();
                    set_path(&mut v2, &path, Value::String(nv));
                    cases.push(("json/leaf-systematic".into(), Case::Json { mt: mt.clone(), text: v2.to_string() }));
                }
            }
        }
    }
    // the public helper functions on hostile strings (lengths in bytes that match a fixed-width format while
    // the characters do not, separators at the ends, empty, very long)
    {
        let mut hs: Vec<String> = [
            "", " ", "A", "12", "1234", "250615", "2506151230", "20250615", "EUR", "XAU", "EUR100,50", "100,50", ",", ",5", "1,2,3", "1e5", "-1", "+930",
            "/ACC", "/", "//", "//FW123", "/C/ACC", "/CC/ACC", "1/NAME", "9/X", "0/", "1/", "50K", "50", "5", ":50K:", "DEUTDEFF", "DEUTDEFFXXX", "deutdeff",
            "GB82WEST12345698765432", "GB82 WEST 1234 5698 7654 32", "XX00", "A\nB", "\n", "A\n\nB", "L1\nL2\nL3\nL4\nL5", "1/A\n2/B\n3/C", "1/A\n3/C", "\r\n",
            "é", "ééé", "ab٣٤", "٣٤٣٤٣٤", "٣٤", "２５０６１５", "25061é", "1٣30", "12٣٤56", "😀", "😀😀", "EU😀", "D😀UTDEFF", "DEUTD😀F", "DEUTDEFF😀", "1٣,50", "/é", "é/1", "١/NAME",
        ]
        .iter()
        .map(|x| x.to_string())
        .collect();
        hs.push("9".repeat(400));
        hs.push("A".repeat(100_000));
        hs.push("é".repeat(3));
        hs.push(format!("{}é", "A".repeat(34)));
        hs.push(format!("é{}", "A".repeat(34)));
        for n in [4usize, 6, 8, 10, 11, 16, 35] {
            // n bytes made of 2-byte characters, and n-1 ASCII + the first byte position of a multi-byte one
            hs.push("٣".repeat(n / 2));
            hs.push(format!("{}é", "1".repeat(n.saturating_sub(1))));
            hs.push(format!("{}é", "1".repeat(n.saturating_sub(2))));
        }
        for h in hs {
            cases.push(("helper".into(), Case::Helper { input: h }));
        }
    }
    // error values with every kind of position (0, first lines, last line, beyond the end, the packed
    // line<<16|column form, huge) against original texts of 0..6 lines, ASCII and not
    {
        let originals: Vec<String> = vec![
            String::new(),
            "one line".into(),
            "{1:F01BANKBEBBAXXX0000000000}{2:I103BANKDEFFXXXXN}{4:\n:20:REF\n-}".into(),
            "l1\nl2".into(),
            "l1\nl2\nl3".into(),
            "l1 é\nl2 ３\nl3 😀\nl4\nl5\nl6".into(),
            w.fulls.first().cloned().unwrap_or_default(),
        ];
        for o in &originals {
            let nl = o.lines().count() as u64;
            let mut positions: Vec<u64> = vec![0, 1, 2, 3, 4, nl.saturating_sub(1), nl, nl + 1, nl + 2, 0xFFFF, 0x10000, 0x10001, 0x20000, 0x20005, 0x30000, 0x40000, nl << 16, (nl + 1) << 16, u32::MAX as u64, (usize::MAX >> 1) as u64, usize::MAX as u64];
            positions.sort();
            positions.dedup();
            for p in positions {
                for variant in ["FieldParsingFailed", "InvalidFieldFormat", "MissingRequiredField", "MultipleErrors"] {
                    cases.push((format!("error-render/{variant}"), Case::ErrorRender { variant: variant.to_string(), position: p, original: o.clone() }));
                }
            }
        }
    }
    // byte-length-preserving non-ASCII: a check on the byte length (4!n = 4 bytes) followed by slicing or
    // unwrapping is only reached when the multi-byte characters add up to the expected number of bytes:
    // 2 ASCII bytes -> one 2-byte letter / digit, 4 -> two of them, 3 -> one full-width digit, 4 -> one emoji
    {
        let specs = crate::spec::fieldfmt::specs();
        for spec in &specs {
            let mut rr = Rng::new(0, "c07-bytelen", 0);
            let Some(canon) = crate::spec::fieldfmt::candidates(spec, 0, &mut rr, 0).into_iter().find(|c| c.class == "canonical") else { continue };
            let b = canon.content.as_bytes();
            if !canon.content.is_ascii() {
                continue;
            }
            // every prefix and every suffix of the canonical content (a component that ends where the next
            // is expected), and the same for the maximal instance
            let mut rr2 = Rng::new(0, "c07-prefix", 0);
            for cand in crate::spec::fieldfmt::candidates(spec, 0, &mut rr2, 0).into_iter().filter(|c| c.class == "canonical" || c.class == "maximal" || c.class == "minimal") {
                let chars: Vec<char> = cand.content.chars().collect();
                for n in 0..chars.len().min(80) {
                    cases.push(("field/prefix".into(), Case::Field { ty: spec.ty.to_string(), input: chars[..n].iter().collect(), variant: None }));
                    cases.push(("field/suffix".into(), Case::Field { ty: spec.ty.to_string(), input: chars[chars.len() - n..].iter().collect(), variant: None }));
                }
            }
            for i in 0..b.len().min(48) {
                for (take, repl) in [(2usize, "é"), (2, "٣"), (4, "٣٤"), (4, "١٢"), (3, "３"), (4, "😀"), (6, "３４")] {
                    if i + take > b.len() || b[i..i + take].contains(&b'\n') {
                        continue;
                    }
                    let input = format!("{}{}{}", &canon.content[..i], repl, &canon.content[i + take..]);
                    cases.push(("field/byte-length-preserving".into(), Case::Field { ty: spec.ty.to_string(), input, variant: None }));
                }
            }
        }
    }
    // values no MT text produces but JSON does: the rule-violating states of the C04 enumeration
    // (sweep points) and every array of the message emptied (a message without its sequences)
    {
        let mut env: std::collections::BTreeMap<String, Value> = Default::default();
        for (mt, j) in &w.jsons {
            env.entry(mt.clone()).or_insert_with(|| serde_json::from_str(j).unwrap());
        }
        for (mt, body) in crate::props::c04::sweep_bodies(cfg.tier.pick(150usize, 3000usize)) {
            if let Some(e) = env.get(&mt) {
                let mut j = e.clone();
                j["fields"] = body;
                cases.push(("json/c04-point".into(), Case::Json { mt, text: j.to_string() }));
            }
        }
        // every key of the body removed in turn (a mandatory slot empty while a later one is filled)
        for (mt, e) in &env {
            let mut keys: Vec<Vec<String>> = Vec::new();
            fn key_paths(v: &Value, cur: &mut Vec<String>, out: &mut Vec<Vec<String>>) {
                match v {
                    Value::Object(m) => {
                        for (k, x) in m {
                            cur.push(k.clone());
                            out.push(cur.clone());
                            key_paths(x, cur, out);
                            cur.pop();
                        }
                    }
                    Value::Array(a) => {
                        for (i, x) in a.iter().enumerate().take(3) {
                            cur.push(i.to_string());
                            key_paths(x, cur, out);
                            cur.pop();
                        }
                    }
                    _ => {}
                }
            }
            if let Some(f) = e.get("fields") {
                key_paths(f, &mut vec!["fields".to_string()], &mut keys);
            }
            for path in keys {
                let mut j = e.clone();
                let (last, parent) = path.split_last().unwrap();
                if let Some(Value::Object(m)) = get_path_mut(&mut j, parent) {
                    m.remove(last);
                    cases.push(("json/key-removed".into(), Case::Json { mt: mt.clone(), text: j.to_string() }));
                }
            }
        }
        for (mt, body) in crate::props::c04::sweep_bodies(cfg.tier.pick(60usize, 600usize)) {
            // and every key of the rule-relevant points removed (first level and inside the first sequences)
            if let Some(e) = env.get(&mt)
                && let Value::Object(m) = &body
            {
                for k in m.keys() {
                    let mut b = body.clone();
                    b.as_object_mut().unwrap().remove(k);
                    let mut j = e.clone();
                    j["fields"] = b;
                    cases.push(("json/c04-point-key-removed".into(), Case::Json { mt: mt.clone(), text: j.to_string() }));
                }
                if let Some(Value::Array(seq)) = m.get("#") {
                    for (si, it) in seq.iter().enumerate().take(2) {
                        if let Value::Object(im) = it {
                            for k in im.keys() {
                                let mut b = body.clone();
                                b["#"][si].as_object_mut().unwrap().remove(k);
                                let mut j = e.clone();
                                j["fields"] = b;
                                cases.push(("json/c04-point-key-removed".into(), Case::Json { mt: mt.clone(), text: j.to_string() }));
                            }
                        }
                    }
                }
            }
        }
        for (mt, e) in &env {
            let mut paths = Vec::new();
            array_paths(e, &mut Vec::new(), &mut paths);
            for path in paths {
                let mut j = e.clone();
                set_path(&mut j, &path, Value::Array(vec![]));
                cases.push(("json/array-emptied".into(), Case::Json { mt: mt.clone(), text: j.to_string() }));
            }
        }
    }
    // systematic: every field of one message per scenario-type with a hostile character at each of
    // its first 14 positions and its last one
    {
        let mut seen_mt: std::collections::HashMap<String, usize> = Default::default();
        for t in &w.fulls {
            let Some(blocks) = tok::split_blocks(t) else { continue };
            let Some((_, b4)) = blocks.iter().find(|(id, _)| id == "4") else { continue };
            let mt = blocks.iter().find(|(id, _)| id == "2").map(|(_, c)| c.get(1..4).unwrap_or("").to_string()).unwrap_or_default();
            let k = seen_mt.entry(mt.clone()).or_insert(0);
            *k += 1;
            if *k > cfg.tier.pick(2, 8) {
                continue;
            }
            let toks = tok::tokenize(b4);
            for (fi, f) in toks.fields.iter().enumerate() {
                let n = g::char_len(&f.content);
                let mut idxs: Vec<usize> = (0..n.min(14)).collect();
                if n > 14 {
                    idxs.push(n - 1);
                }
                for idx in idxs {
                    for ch in ['é', '３'] {
                        let mut fs = toks.fields.clone();
                        fs[fi].content = g::subst_char(&f.content, idx, ch);
                        let nb4 = format!("\r\n{}\r\n", tok::render(&fs, true, false));
                        let full = t.replacen(b4.as_str(), &nb4, 1);
                        cases.push(("full/field-systematic".into(), Case::Full { text: full }));
                    }
                }
            }
        }
    }
    // left-over content after the last field, long and made of multi-byte characters at every byte alignment
    // (an error message that quotes a fixed number of bytes of it)
    {
        let mut seen_mt: std::collections::BTreeSet<String> = Default::default();
        for (mt, b4) in &w.b4 {
            if !seen_mt.insert(mt.clone()) {
                continue;
            }
            for unit in ["é", "３", "😀"] {
                for pad in 0..4usize {
                    for tag in ["99Z", "72", "20"] {
                        let tail = format!(":{tag}:{}{}", "A".repeat(pad), unit.repeat(60));
                        cases.push(("block4/trailing-multibyte".into(), Case::Block4 { mt: mt.clone(), text: format!("{}\n{tail}", b4.trim_end()) }));
                        cases.push(("block4/trailing-multibyte".into(), Case::Block4 { mt: mt.clone(), text: format!("{}\n{}{}", b4.trim_end(), "B".repeat(pad), unit.repeat(60)) }));
                    }
                }
            }
        }
    }
    // a few fixed hostile full texts
    for t in [
        "",
        "{",
        "{1:",
        "{1:}{2:}{4:\n-}",
        "{2:I103}",
        "{2:O103}",
        "{2:I1}",
        "{1:F01BANKBEBBAXXX0000000000}{2:I103BANKDEFFXXXXN}{4:\n:20:X\n-}",
        "{1:F01BANKBEBBAXXX0000000000}{2:I103BANKDEFFXXXXN}{3:{108:}}{4:\n-}{5:{CHK:}}",
        "{1:é}{2:é}{3:é}{4:é-}{5:é}",
        "{2:I103€€€€€€€€€€€€N}{4:\n:20:X\n-}",
    ] {
        cases.push(("full/fixed".into(), Case::Full { text: t.to_string() }));
    }
    // every envelope shape of C10 (all header lengths, tag subsets and orders, boundary values, malformed
    // headers), plus each with its block 1 and block 2 cut at every length: C10 only notes a panic, here it counts
    for (k, t) in super::c10::envelope_texts(cfg).into_iter().enumerate() {
        if k % 97 == 0
            && let Some(blocks) = tok::split_blocks(&t)
        {
            for (id, content) in blocks.iter().filter(|b| b.0 == "1" || b.0 == "2") {
                for cut in 0..content.len() {
                    if content.is_char_boundary(cut) {
                        let shorter = t.replacen(&format!("{{{id}:{content}}}"), &format!("{{{id}:{}}}", &content[..cut]), 1);
                        cases.push(("full/envelope-cut".into(), Case::Full { text: shorter }));
                    }
                }
            }
        }
        cases.push(("full/envelope".into(), Case::Full { text: t }));
    }

    let n = cases.len() as u64;
    let cases = std::sync::Arc::new(cases);
    {
        let cc = cases.clone();
        set_hang_describer(Box::new(move |i| serde_json::to_value(&cc[i as usize].1).unwrap_or(Value::Null)));
    }
    let mut total = par_for(cfg, n, |i, l| {
        let (lab, case) = &cases[i as usize];
        if l.want_sample(lab) {
            l.sample(lab, json!({"label": lab, "case": case}));
        }
        l.count(&format!("cases:{}", lab.split('/').next().unwrap_or("")), 1);
        judge(cfg, case, l);
    });
    clear_hang_describer();
    let ramp = ramps(cfg);
    total.merge(ramp);

    let mut rep = Report::default();
    rep.rule = "cases = corpus messages / block-4 texts / headers / field contents / message JSON, each original and under labelled mutations (single-character substitution or insertion by 2-, 3-, 4-byte code points, non-ASCII digits, NUL, TAB, ASCII structure characters; deletion; truncation at byte offsets), plus generic hostile strings through all 114 field parsers and size ramps. Every case runs every applicable entry point under catch_unwind; non-trivial = every case (each one executes the parser); distinct = distinct (entry class, input text) digests".into();
    rep.assumptions = vec![
        "panics are observed through catch_unwind + panic hook; aborts/stack overflows would kill the worker and are reported by the supervisor script as a harness error with the last case label".into(),
        "time bounds are judged on thread CPU time of size ramps (not wall clock)".into(),
    ];
    rep.required_strata = vec!["full:ascii".into(), "full:non-ascii".into(), "legacy:ascii".into(), "header1:ascii".into(), "header2:non-ascii".into()];
    rep.min_evals = 1000;
    finish(cfg, started, total, rep)
}

pub fn replay(cfg: &Config, case: &Value) -> Local {
    let mut l = Local::default();
    if let Some(r) = case.get("Ramp") {
        let name = r["name"].as_str().unwrap_or("");
        let mut x = ramps_filtered(cfg, Some(name));
        l.merge(std::mem::take(&mut x));
        return l;
    }
    let c: Case = serde_json::from_value(case.clone()).expect("C07 case");
    judge(cfg, &c, &mut l);
    l
}

// ---------------------------------------------------------------------------------------------
// Size ramps: CPU time of each entry point at sizes n, 2n, 4n, 8n

fn thread_cpu_ns() -> u64 {
    let mut ts = libc::timespec { tv_sec: 0, tv_nsec: 0 };
    unsafe {
        libc::clock_gettime(libc::CLOCK_THREAD_CPUTIME_ID, &mut ts);
    }
    ts.tv_sec as u64 * 1_000_000_000 + ts.tv_nsec as u64
}

struct Ramp {
    name: &'static str,
    make: fn(usize) -> String,
    run: fn(&str),
}

fn many_fields(n: usize) -> String {
    let mut s = String::from(":20:REF\r\n");
    for i in 0..n {
        s.push_str(&format!(":61:250101C{},00NTRFREF{}\r\n:86:INFO {}\r\n", i % 1000 + 1, i, i));
    }
    s
}
fn full_env(b4: &str, mt: &str) -> String {
    format!("{{1:F01BANKBEBBAXXX0000000000}}{{2:I{mt}BANKDEFFXXXXN}}{{4:\r\n{b4}\r\n-}}")
}

fn ramp_list() -> Vec<Ramp> {
    vec![
        Ramp {
            name: "parse_block4_fields/many-fields",
            make: many_fields,
            run: |s| {
                let _ = parse_block4_fields(s);
            },
        },
        Ramp {
            name: "MT940::parse_from_block4/many-fields",
            make: |n| {
                let mut s = String::from(":20:REF\r\n:25:ACC\r\n:28C:1/1\r\n:60F:C250101USD1,00\r\n");
                for i in 0..n {
                    s.push_str(&format!(":61:250101C{},00NTRFREF{}\r\n:86:INFO {}\r\n", i % 1000 + 1, i, i));
                }
                s.push_str(":62F:C250101USD1,00\r\n");
                s
            },
            run: |s| {
                let _ = (crate::registry::msg("940").unwrap().parse_b4)(s);
            },
        },
        Ramp {
            name: "parse_auto/MT103-huge-70",
            make: |n| {
                let body = format!(
                    ":20:REF\r\n:23B:CRED\r\n:32A:250101USD1,00\r\n:50K:NAME\r\n:59:NAME\r\n:70:{}\r\n:71A:SHA",
                    "X".repeat(n * 10)
                );
                full_env(&body, "103")
            },
            run: |s| {
                let _ = SwiftParser::parse_auto(s);
            },
        },
        Ramp {
            name: "parse_auto/MT199-many-lines-79",
            make: |n| {
                let mut body = String::from(":20:REF\r\n:79:");
                for i in 0..n {
                    body.push_str(&format!("LINE {i}\r\n"));
                }
                body.push_str("END");
                full_env(&body, "199")
            },
            run: |s| {
                let _ = SwiftParser::parse_auto(s);
            },
        },
        Ramp {
            name: "parse_auto/nested-braces-block3",
            make: |n| {
                format!(
                    "{{1:F01BANKBEBBAXXX0000000000}}{{2:I103BANKDEFFXXXXN}}{{3:{}{}}}{{4:\r\n:20:X\r\n-}}",
                    "{".repeat(n),
                    "}".repeat(n)
                )
            },
            run: |s| {
                let _ = SwiftParser::parse_auto(s);
            },
        },
        Ramp {
            name: "Field61::parse/long-digits",
            make: |n| format!("250101C{}", "9".repeat(n * 4)),
            run: |s| {
                let _ = (crate::registry::field("Field61").unwrap().parse)(s);
            },
        },
        Ramp {
            name: "Field32A::parse/long-amount",
            make: |n| format!("250101USD{},", "9".repeat(n * 4)),
            run: |s| {
                let _ = (crate::registry::field("Field32A").unwrap().parse)(s);
            },
        },
        Ramp {
            name: "Field79::parse/many-lines",
            make: |n| (0..n).map(|i| format!("L{i}")).collect::<Vec<_>>().join("\n"),
            run: |s| {
                let _ = (crate::registry::field("Field79").unwrap().parse)(s);
            },
        },
        Ramp {
            name: "Field50K::parse/many-lines",
            make: |n| format!("/ACC\n{}", (0..n).map(|i| format!("L{i}")).collect::<Vec<_>>().join("\n")),
            run: |s| {
                let _ = (crate::registry::field("Field50K").unwrap().parse)(s);
            },
        },
        Ramp {
            name: "Field59F::parse/many-lines",
            make: |n| (0..n).map(|i| format!("{}/L{i}", i % 8 + 1)).collect::<Vec<_>>().join("\n"),
            run: |s| {
                let _ = (crate::registry::field("Field59F").unwrap().parse)(s);
            },
        },
        Ramp {
            name: "UserHeader::parse/many-tags",
            make: |n| (0..n).map(|i| format!("{{108:REF{i}}}")).collect::<String>(),
            run: |s| {
                let _ = UserHeader::parse(s);
            },
        },
        Ramp {
            name: "Trailer::parse/many-tags",
            make: |n| (0..n).map(|i| format!("{{CHK:{:012X}}}", i)).collect::<String>(),
            run: |s| {
                let _ = Trailer::parse(s);
            },
        },
        Ramp {
            name: "serde_json::from_str::<SwiftMessage<MT103>>/deep-nesting",
            make: |n| format!("{}{}", "[".repeat(n), "]".repeat(n)),
            run: |s| {
                let _ = (crate::registry::msg("103").unwrap().full_from_str)(s);
            },
        },
        Ramp {
            name: "ParseError::format_with_context/long-original",
            make: |n| many_fields(n),
            run: |s| {
                let e = ParseError::FieldParsingFailed {
                    field_tag: "61".into(),
                    field_type: "Field61".into(),
                    position: (s.lines().count() / 2) << 16 | 5,
                    original_error: "x".into(),
                };
                let _ = e.format_with_context(s);
                let _ = e.debug_report();
            },
        },
        Ramp {
            name: "MT101::parse_from_block4/many-transactions",
            make: |n| {
                let mut s = String::from(":20:REF\r\n:28D:1/1\r\n:30:250101\r\n");
                for i in 0..n {
                    s.push_str(&format!(":21:T{i}\r\n:32B:USD1,00\r\n:59:/ACC\r\nNAME\r\n:71A:SHA\r\n"));
                }
                s
            },
            run: |s| {
                let _ = (crate::registry::msg("101").unwrap().parse_b4)(s);
            },
        },
        Ramp {
            name: "extract_block/many-open-braces",
            make: |n| format!("{}{{4:\r\n:20:X\r\n-}}", "{3:".repeat(n)),
            run: |s| {
                for i in 1..=5 {
                    let _ = SwiftParser::extract_block(s, i);
                }
            },
        },
    ]
}

fn ramps(cfg: &Config) -> Local {
    ramps_filtered(cfg, None)
}

/// Decision rule (fixed in advance): for sizes n,2n,4n,8n (cpu time t0..t3, each the minimum of
/// 3 runs), the growth exponent of a doubling is log2(t[k+1]/t[k]). Two consecutive doublings
/// with exponent > 2.6 while t[k] >= 2 ms violate ("worse than low polynomial"); a single call
/// on <= 64 KiB that needs more than 20 s CPU violates ("hang"); anything cut by the per-ramp CPU
/// budget is inconclusive.
fn ramps_filtered(cfg: &Config, only: Option<&str>) -> Local {
    let list = ramp_list();
    let sel: Vec<&Ramp> = list.iter().filter(|r| only.map(|o| o == r.name).unwrap_or(true)).collect();
    let base = cfg.tier.pick(500usize, 2000usize);
    let n = sel.len() as u64;
    {
        let names: Vec<String> = sel.iter().map(|r| r.name.to_string()).collect();
        set_hang_describer(Box::new(move |i| json!({"Ramp": {"name": names[i as usize]}})));
    }
    par_for(cfg, n, |i, l| {
        let r = sel[i as usize];
        let mut times: Vec<(usize, usize, u64)> = Vec::new();
        let mut budget_hit = false;
        for k in 0..4 {
            let size = base << k;
            let input = (r.make)(size);
            let mut best = u64::MAX;
            for _ in 0..3 {
                heartbeat();
                let t0 = thread_cpu_ns();
                let res = guard(|| (r.run)(&input));
                let dt = thread_cpu_ns() - t0;
                if let Err(p) = res {
                    let case = Case::Full { text: format!("<ramp {} size {}>", r.name, size) };
                    report_panic(cfg, l, r.name, &p, "ascii", &case);
                }
                best = best.min(dt);
                if dt > 20_000_000_000 && input.len() <= 65536 {
                    l.violation(
                        format!("C07|{}|timeout|ascii", r.name),
                        format!("{} needs {} ms CPU on a {} byte input", r.name, dt / 1_000_000, input.len()),
                        || json!({"Ramp": {"name": r.name, "size": size}}),
                    );
                }
                if dt > 8_000_000_000 {
                    break;
                }
            }
            times.push((size, input.len(), best));
            l.eval(&format!("ramp:{}", r.name), &format!("size-step-{k}"), true, hash_bytes2(r.name, &size.to_string()));
            if best > 8_000_000_000 {
                budget_hit = true;
                break;
            }
        }
        let mut exps: Vec<f64> = Vec::new();
        for wnd in times.windows(2) {
            let (a, b) = (wnd[0].2.max(1) as f64, wnd[1].2.max(1) as f64);
            exps.push((b / a).log2());
        }
        let mut bad = 0;
        let mut worst = false;
        for (k, e) in exps.iter().enumerate() {
            if *e > 2.6 && times[k].2 >= 2_000_000 {
                bad += 1;
                if bad >= 2 {
                    worst = true;
                }
            } else {
                bad = 0;
            }
        }
        l.sample(
            &format!("ramp:{}", r.name),
            json!({"ramp": r.name, "sizes_bytes_cpu_ns": times.iter().map(|t| json!([t.0, t.1, t.2])).collect::<Vec<_>>(), "doubling_exponents": exps}),
        );
        if worst {
            l.violation(
                format!("C07|{}|superquadratic|ascii", r.name),
                format!("{} grows with exponents {:?} over doublings (cpu ns {:?})", r.name, exps, times),
                || json!({"Ramp": {"name": r.name}}),
            );
        }
        if budget_hit {
            l.inconclusive(&format!("ramp-budget:{}", r.name));
        }
    })
}

fn leaf_paths(v: &Value, cur: &mut Vec<String>, out: &mut Vec<Vec<String>>) {
    match v {
        Value::Object(m) => {
            for (k, x) in m {
                cur.push(k.clone());
                leaf_paths(x, cur, out);
                cur.pop();
            }
        }
        Value::Array(a) => {
            for (i, x) in a.iter().enumerate() {
                cur.push(i.to_string());
                leaf_paths(x, cur, out);
                cur.pop();
            }
        }
        Value::String(_) | Value::Number(_) => out.push(cur.clone()),
        _ => {}
    }
}
fn get_path<'a>(v: &'a Value, path: &[String]) -> Option<&'a Value> {
    let mut c = v;
    for p in path {
        c = match c {
            Value::Object(m) => m.get(p)?,
            Value::Array(a) => a.get(p.parse::<usize>().ok()?)?,
            _ => return None,
        };
    }
    Some(c)
}
fn get_path_mut<'a>(v: &'a mut Value, path: &[String]) -> Option<&'a mut Value> {
    let mut c = v;
    for p in path {
        c = match c {
            Value::Object(m) => m.get_mut(p)?,
            Value::Array(a) => a.get_mut(p.parse::<usize>().ok()?)?,
            _ => return None,
        };
    }
    Some(c)
}
fn set_path(v: &mut Value, path: &[String], nv: Value) {
    let mut c = v;
    for p in path {
        c = match c {
            Value::Object(m) => m.get_mut(p).unwrap(),
            Value::Array(a) => a.get_mut(p.parse::<usize>().unwrap()).unwrap(),
            _ => return,
        };
    }
    *c = nv;
}

fn array_paths(v: &Value, cur: &mut Vec<String>, out: &mut Vec<Vec<String>>) {
    match v {
        Value::Object(m) => {
            for (k, x) in m {
                cur.push(k.clone());
                array_paths(x, cur, out);
                cur.pop();
            }
        }
        Value::Array(a) => {
            out.push(cur.clone());
            for (i, x) in a.iter().enumerate() {
                cur.push(i.to_string());
                array_paths(x, cur, out);
                cur.pop();
            }
        }
        _ => {}
    }
}
