//! C01 — Nothing in an accepted message is silently discarded.
//!
//! Boundary oracle (primary, spec-free): accepted => lossless. The input and the serialised
//! output are tokenised by the *reference* tokeniser (tok.rs); the tag sequences must be equal
//! and each content equal up to line endings and number formatting.
//! Hook monitor (explains and double-checks): the cursor events of MessageParser recorded under
//! the verif-hooks feature must show byte conservation on every accepted parse — no non-blank
//! skip, no field whose own parser failed, no non-blank rest at the end.
//! Mutations whose content is certainly outside the field's format must be rejected.
//! Key: `C01|<cause>|<site>|<class>`.

use crate::corpus::{self, Corpus};
use crate::monitor::*;
use crate::mutate::{self, Pool};
use crate::registry::msg;
use crate::rng::{Rng, hash_bytes2};
use crate::tok::{self, Token};
use serde::{Deserialize, Serialize};
use serde_json::{Value, json};
use swift_mt_message::SwiftParser;
use swift_mt_message::verif_hooks::{self, HookEvent};

#[derive(Clone, Debug, Serialize, Deserialize)]
pub enum Case {
    /// block-4 text for one type; `must_reject` carries the label of a certainly-invalid mutation
    Block4 { mt: String, text: String, must_reject: Option<String> },
    /// the same inside a full envelope through parse_auto
    Full { mt: String, text: String },
}

/// Canonical form for content comparison: line endings, and every maximal digit run with an
/// optional decimal comma compared as a number (leading zeros, trailing decimal zeros, bare
/// trailing comma). Anything else is compared byte for byte.
pub fn canon(content: &str) -> String {
    let s = tok::normalize_newlines(content);
    let b: Vec<char> = s.chars().collect();
    let mut out = String::with_capacity(s.len());
    let mut i = 0;
    while i < b.len() {
        if b[i].is_ascii_digit() {
            let st = i;
            while i < b.len() && b[i].is_ascii_digit() {
                i += 1;
            }
            let int: String = b[st..i].iter().collect();
            let mut frac = String::new();
            let mut had_comma = false;
            if i < b.len() && b[i] == ',' {
                let mut j = i + 1;
                while j < b.len() && b[j].is_ascii_digit() {
                    j += 1;
                }
                // a comma followed by digits or by a non-digit: decimal comma of an amount
                frac = b[i + 1..j].iter().collect();
                had_comma = true;
                i = j;
            }
            let int = int.trim_start_matches('0');
            out.push_str(if int.is_empty() { "0" } else { int });
            let frac = frac.trim_end_matches('0');
            if had_comma && !frac.is_empty() {
                out.push(',');
                out.push_str(frac);
            }
            // a bare decimal comma is formatting: the library's own canonical spelling of a
            // zero-decimal amount has none (unit test test_format_swift_amount_for_currency pins
            // JPY 1500000.0 -> "1500000"), so 100, == 100,00 == 100
        } else {
            out.push(b[i]);
            i += 1;
        }
    }
    out
}


fn content_class(a: &str, b: &str) -> &'static str {
    let (a, b) = (tok::normalize_newlines(a), tok::normalize_newlines(b));
    if a.trim_start_matches('/') == b.trim_start_matches('/') {
        "leading-slash"
    } else if a.starts_with(b.as_str()) {
        "tail-dropped"
    } else if b.starts_with(a.as_str()) {
        "tail-added"
    } else if a.lines().count() != b.lines().count() {
        "line-count"
    } else if a.to_uppercase() == b.to_uppercase() {
        "case"
    } else {
        "other"
    }
}

fn v(l: &mut Local, cause: &str, site: &str, class: &str, what: String, case: &Case) {
    l.violation(format!("C01|{cause}|{site}|{class}"), what, || serde_json::to_value(case).unwrap());
}

fn tags(ts: &[Token]) -> Vec<&str> {
    ts.iter().map(|t| t.tag.as_str()).collect()
}

/// Hook-event conservation on an accepted parse. Returns an attribution if something was lost.
fn hook_attribution(events: &[HookEvent], mt: &str) -> Vec<(String, String)> {
    let mut out = Vec::new();
    let mut i = 0;
    while i < events.len() {
        match &events[i] {
            HookEvent::Extract { tag, skipped_non_ws, found, .. } => {
                if *found && *skipped_non_ws > 0 {
                    out.push(("skip-ahead".to_string(), format!("MT{mt}:{tag}")));
                }
            }
            HookEvent::FieldParsed { tag, ok } => {
                if !*ok {
                    out.push(("swallowed".to_string(), format!("MT{mt}:{tag}")));
                }
            }
            HookEvent::ParserEnd { rest_is_blank, .. } => {
                if !*rest_is_blank {
                    out.push(("unconsumed-tail".to_string(), format!("MT{mt}")));
                }
            }
        }
        i += 1;
    }
    out
}

fn compare(mt: &str, x: &str, y: &str, events: &[HookEvent], l: &mut Local, case: &Case) {
    let tx = tok::tokenize(x);
    let ty = tok::tokenize(y);
    let attributions = hook_attribution(events, mt);
    for (cause, site) in &attributions {
        v(
            l,
            &format!("hook:{cause}"),
            site,
            "accepted",
            format!("accepted parse whose cursor trace shows {cause} at {site} (bytes of the text block not accounted for)"),
            case,
        );
    }
    if !tx.preamble.trim().is_empty() {
        v(l, "preamble-ignored", &format!("MT{mt}"), "accepted", format!("MT{mt}: text before the first field is accepted and dropped"), case);
    }
    let (ta, tb) = (tags(&tx.fields), tags(&ty.fields));
    if ta != tb {
        // first difference
        let k = ta.iter().zip(&tb).position(|(a, b)| a != b).unwrap_or(ta.len().min(tb.len()));
        let a = ta.get(k).copied().unwrap_or("<end>");
        let b = tb.get(k).copied().unwrap_or("<end>");
        let mut sa = ta.clone();
        let mut sb = tb.clone();
        sa.sort();
        sb.sort();
        let clause = if sa == sb {
            "reordered"
        } else if ta.len() > tb.len() {
            "field-lost"
        } else if ta.len() < tb.len() {
            "field-invented"
        } else {
            "tag-changed"
        };
        v(
            l,
            clause,
            &format!("MT{mt}"),
            &format!("{a}->{b}"),
            format!("MT{mt}: accepted, but the serialised tag sequence differs from the input's at position {k}: input has {a}, output has {b}"),
            case,
        );
        return;
    }
    for (a, b) in tx.fields.iter().zip(&ty.fields) {
        if canon(&a.content) != canon(&b.content) {
            let class = content_class(&a.content, &b.content);
            v(
                l,
                "content",
                &a.tag,
                class,
                format!("field {} in an accepted message: serialised content differs from the input's ({class}); first seen in MT{mt}", a.tag),
                case,
            );
        }
    }
}

pub fn judge(_cfg: &Config, case: &Case, l: &mut Local, stratum: &str) {
    match case {
        Case::Block4 { mt, text, must_reject } => {
            let ops = msg(mt).expect("type");
            verif_hooks::take();
            let r = guard(|| (ops.parse_b4)(text));
            let events = verif_hooks::take();
            l.count("hook_events", events.len() as u64);
            match r {
                Err(_) => l.eval(stratum, "panic(C07)", false, 0),
                Ok(Err(_)) => l.eval(stratum, "rejected", true, hash_bytes2(mt, text)),
                Ok(Ok(m)) => {
                    l.eval(stratum, "accepted", true, hash_bytes2(mt, text));
                    if events.is_empty() {
                        l.inconclusive("hooks-silent");
                    }
                    if let Some(label) = must_reject {
                        let (kind, tag) = label.split_once('@').unwrap_or((label, "?"));
                        v(
                            l,
                            "accepted-invalid-content",
                            tag,
                            kind,
                            if kind.ends_with("repetitions") { format!("{tag}: a text with more repetitions of its sequence than the type allows ({kind}) is accepted by the parser") } else { format!("field {tag} with content that is certainly outside its format ({kind}) is accepted; first seen in MT{mt}") },
                            case,
                        );
                    }
                    if let Ok(y) = guard(|| m.to_mt()) {
                        compare(mt, text, &y, &events, l, case);
                        // JSON route: the same message taken through its JSON form must publish the same fields
                        if let Ok(Ok(j)) = guard(|| m.json())
                            && let Ok(Ok(m2)) = guard(|| (ops.body_from_json)(&j))
                            && let Ok(y2) = guard(|| m2.to_mt())
                            && y2 != y
                        {
                            let (t1, t2) = (tok::tokenize(&y), tok::tokenize(&y2));
                            let k = t1.fields.iter().zip(&t2.fields).position(|(a, b)| a.tag != b.tag || a.content != b.content).unwrap_or(t1.fields.len().min(t2.fields.len()));
                            let a = t1.fields.get(k).map(|f| f.tag.as_str()).unwrap_or("<end>");
                            let b = t2.fields.get(k).map(|f| f.tag.as_str()).unwrap_or("<end>");
                            v(l, "json-route", a, &format!("->{b}"), format!("field {a}: the message read back from its own JSON publishes a different text (field {b} in its place or with other content); first seen in MT{mt}"), case);
                        }
                        // ... and through the publish workflow function (one case in four): the published text block
                        // holds the fields of the direct serialisation
                        // (only where the direct serialisation gave the input back: what the parser itself loses
                        // is reported above, under its own key)
                        let direct_clean = {
                            let (ti, to) = (tok::tokenize(text), tok::tokenize(&y));
                            ti.fields.len() == to.fields.len() && ti.fields.iter().zip(&to.fields).all(|(a, b)| a.tag == b.tag && canon(&a.content) == canon(&b.content))
                        };
                        if direct_clean && hash_bytes2(mt, text) % 4 == 0 {
                            let full = format!("{{1:F01BANKBEBBAXXX0000000000}}{{2:I{mt}BANKDEFFXXXXN}}{{4:\n{text}\n-}}");
                            if let Ok(Ok(mf)) = guard(|| (ops.parse_full)(&full))
                                && let Ok(Ok(jf)) = guard(|| mf.json())
                                && let Ok(Ok(p)) = guard(|| crate::plug::publish_json(&jf))
                                && let Some(b4p) = corpus::block4_of(&p)
                            {
                                let (t1, t2) = (tok::tokenize(&y), tok::tokenize(&b4p));
                                let same = t1.fields.len() == t2.fields.len() && t1.fields.iter().zip(&t2.fields).all(|(a, b)| a.tag == b.tag && canon(&a.content) == canon(&b.content));
                                if !same {
                                    let k = t1.fields.iter().zip(&t2.fields).position(|(a, b)| a.tag != b.tag || canon(&a.content) != canon(&b.content)).unwrap_or(t1.fields.len().min(t2.fields.len()));
                                    let a = t1.fields.get(k).map(|f| f.tag.as_str()).unwrap_or("<end>");
                                    let b = t2.fields.get(k).map(|f| f.tag.as_str()).unwrap_or("<end>");
                                    v(l, "publish-route", a, &format!("->{b}"), format!("field {a}: the publish plugin writes the message's JSON with field {b} in its place (or with other content) than to_mt_string; first seen in MT{mt}"), case);
                                }
                            }
                        }
                    }
                }
            }
        }
        Case::Full { mt, text } => {
            verif_hooks::take();
            let r = guard(|| SwiftParser::parse_auto(text));
            let events = verif_hooks::take();
            match r {
                Err(_) => l.eval(stratum, "panic(C07)", false, 0),
                Ok(Err(_)) => l.eval(stratum, "rejected", true, hash_bytes2(mt, text)),
                Ok(Ok(_p)) => {
                    l.eval(stratum, "accepted", true, hash_bytes2(mt, text));
                    let ops = msg(mt).expect("type");
                    if let Ok(Ok(m)) = guard(|| (ops.parse_full)(text))
                        && let Ok(y) = guard(|| m.to_mt_message())
                        && let (Some(bx), Some(by)) = (corpus::block4_of(text), corpus::block4_of(&y))
                    {
                        verif_hooks::take();
                        compare(mt, &bx, &by, &events, l, case);
                    }
                }
            }
        }
    }
}

/// marker tag of the repeating sequence per type and the documented cap (0 = none documented)
fn repeat_info(mt: &str) -> Option<(&'static str, usize)> {
    Some(match mt {
        "101" | "104" | "107" => ("21", 0),
        "110" => ("21", 10),
        "204" => ("20", 10),
        "210" => ("21", 10),
        "920" => ("12", 100),
        "935" => ("23", 10),
        "940" | "942" | "950" => ("61", 500),
        _ => return None,
    })
}

/// repeat the first complete group (marker .. next marker) so that the message has `count` groups
fn with_repetitions(base: &[Token], marker: &str, skip_first: bool, count: usize) -> Option<Vec<Token>> {
    let mut idx: Vec<usize> = base.iter().enumerate().filter(|(_, t)| t.tag == marker).map(|(i, _)| i).collect();
    if skip_first && !idx.is_empty() {
        idx.remove(0);
    }
    if idx.len() < 2 {
        return None;
    }
    let (a, b) = (idx[0], idx[1]);
    let group: Vec<Token> = base[a..b].to_vec();
    let have = idx.len();
    if count <= have {
        return None;
    }
    let mut out = base[..b].to_vec();
    for _ in 0..(count - have) {
        out.extend(group.iter().cloned());
    }
    out.extend(base[b..].iter().cloned());
    Some(out)
}

pub fn run(cfg: &Config) -> i32 {
    let started = std::time::Instant::now();
    let c = Corpus::load(&cfg.verif_dir);
    let contents = corpus::field_contents(&c);
    let pool: Pool = mutate::pool_from(&contents);
    let mut cases: Vec<(String, Case)> = Vec::new();
    let mut r = Rng::new(cfg.seed, "c01-build", 0);
    let n = c.entries.len();
    let full_mut_per_type = 20usize;
    let mut taken: std::collections::HashMap<String, usize> = Default::default();
    for k in 0..n {
        let e = &c.entries[(k + (cfg.seed as usize * 7919) % n) % n];
        let Some(b4) = corpus::block4_of(&e.text) else { continue };
        let toks = tok::tokenize(&b4);
        let base = &toks.fields;
        cases.push((format!("MT{}/base", e.mt), Case::Block4 { mt: e.mt.clone(), text: tok::render(base, false, false), must_reject: None }));
        cases.push((format!("MT{}/base-crlf-terminated", e.mt), Case::Block4 { mt: e.mt.clone(), text: tok::render(base, true, true), must_reject: None }));
        let t = taken.entry(e.mt.clone()).or_insert(0);
        *t += 1;
        let exhaustive = *t <= full_mut_per_type;
        let muts = mutate::single_mutations(base, &pool, &mut r, exhaustive);
        for m in &muts {
            cases.push((
                format!("MT{}/{}", e.mt, m.kind),
                Case::Block4 { mt: e.mt.clone(), text: tok::render(&m.fields, false, false), must_reject: None },
            ));
        }
        // a value that ends in a terminator look-alike, as the LAST field of the block and inside a full envelope
        // (the wrapper writes the block terminator right behind it)
        for m in muts.iter().filter(|m| (m.kind.starts_with("ends-with") || m.kind.ends_with("-inside")) && m.at + 1 == m.fields.len()) {
            let nb4 = format!("\n{}\n", tok::render(&m.fields, false, false));
            let full = e.text.replacen(b4.as_str(), &nb4, 1);
            cases.push((format!("MT{}/envelope-last-field:{}", e.mt, m.kind), Case::Full { mt: e.mt.clone(), text: full }));
        }
        if exhaustive {
            // the same mutations with CRLF line ends and inside a full envelope
            for (i, m) in muts.iter().enumerate() {
                if i % 3 == 0 {
                    cases.push((
                        format!("MT{}/crlf:{}", e.mt, m.kind),
                        Case::Block4 { mt: e.mt.clone(), text: tok::render(&m.fields, true, false), must_reject: None },
                    ));
                }
                if i % 3 == 1 {
                    let nb4 = format!("\n{}\n", tok::render(&m.fields, false, false));
                    let full = e.text.replacen(b4.as_str(), &nb4, 1);
                    cases.push((format!("MT{}/envelope:{}", e.mt, m.kind), Case::Full { mt: e.mt.clone(), text: full }));
                }
            }
            // pairs of mutations (thorough): a second mutation applied to a mutated base
            if cfg.tier == Tier::Thorough {
                for _ in 0..400 {
                    let m1 = r.pick(&muts).clone();
                    let m2s = mutate::single_mutations(&m1.fields, &pool, &mut r, false);
                    if m2s.is_empty() {
                        continue;
                    }
                    let m2 = r.pick(&m2s);
                    cases.push((
                        format!("MT{}/pair", e.mt),
                        Case::Block4 { mt: e.mt.clone(), text: tok::render(&m2.fields, false, false), must_reject: None },
                    ));
                }
            }
        }
        // certainly-invalid content in each structured field
        for (fi, f) in base.iter().enumerate() {
            if !mutate::structured_tag(&f.tag) {
                continue;
            }
            for (lab, nc) in mutate::corruptions(&f.content) {
                let mut fs = base.clone();
                fs[fi].content = nc;
                cases.push((
                    format!("MT{}/corrupt:{lab}", e.mt),
                    Case::Block4 {
                        mt: e.mt.clone(),
                        text: tok::render(&fs, false, false),
                        must_reject: Some(format!("{lab}@{}", f.tag)),
                    },
                ));
            }
        }
        // repetition counts around the documented caps
        if let Some((marker, cap)) = repeat_info(&e.mt) {
            let counts: Vec<usize> = if cap == 0 { vec![3, 12, 40] } else if cap <= 10 { vec![cap - 1, cap, cap + 1, cap + 2, 2 * cap + 1] } else if cap == 100 { vec![99, 100, 101, 102] } else if exhaustive { vec![cap - 1, cap, cap + 1, cap + 2] } else { vec![] };
            for cnt in counts {
                if let Some(fs) = with_repetitions(base, marker, e.mt == "204", cnt) {
                    cases.push((
                        format!("MT{}/repeat:{}", e.mt, if cap == 0 { "uncapped".to_string() } else if cnt <= cap { "at-or-below-cap".to_string() } else { "above-cap".to_string() }),
                        Case::Block4 { mt: e.mt.clone(), text: tok::render(&fs, false, false), must_reject: if cap > 0 && cap <= 100 && cnt > cap { Some(format!("more-than-{cap}-repetitions@MT{}", e.mt)) } else { None } },
                    ));
                }
            }
        }
    }
    // bases the corpus does not contain: messages generated from the independent layout table (maximal
    // and random shapes: every option, optional fields, repeated sequences), each with every single mutation
    {
        use crate::spec::layout::{self, Gen, GenOptions};
        use crate::spec::{self, Canon};
        for lay in &layout::layouts() {
            // (shape seed, options, forced option): the maximal message and one maximal message per documented
            // option are independent of VERIF_SEED (so that every tag of every type meets every mutation on
            // every run); random shapes vary with the seed
            let mut shapes: Vec<(u64, u64, GenOptions, Option<(String, String)>, bool)> = Vec::new();
            shapes.push((0, 0, GenOptions { optional_per_mille: 1000, max_repeat: 2, max_seq: 2, maximal: true, minimal: false }, None, true));
            for (k, (num, opt)) in layout::option_pairs(lay).into_iter().enumerate() {
                shapes.push((0, 1 + k as u64, GenOptions { optional_per_mille: 1000, max_repeat: 1, max_seq: 1, maximal: true, minimal: false }, Some((num, opt)), false));
            }
            for vi in 0..cfg.tier.pick(3u64, 24u64) {
                shapes.push((cfg.seed, 100 + vi, GenOptions { optional_per_mille: [500, 800, 250][(vi % 3) as usize], max_repeat: 2, max_seq: [1, 2, 3][(vi % 3) as usize], maximal: false, minimal: false }, None, false));
            }
            for (sd, vi, opt, force, full) in shapes {
                let mut rr = Rng::new(sd, &format!("c01-gen:{}", lay.mt), vi);
                let force_include = force.as_ref().map(|f| f.0.clone());
                let mut g = Gen { r: &mut rr, counter: vi as usize * 60, mt: lay.mt, opt, force_option: force, force_include };
                let gf = g.message(lay);
                let mut base: Vec<tok::Token> = Vec::new();
                let mut ok = true;
                for f in &gf {
                    match spec::canonical(&f.tag, &f.content) {
                        Canon::Ok(c) => base.push(tok::Token { tag: f.tag.clone(), content: c }),
                        _ => ok = false,
                    }
                }
                if !ok {
                    continue;
                }
                if lay.mt == "204" && base.len() >= 2 && base[1].tag == "19" {
                    base.swap(0, 1); // the order the library itself uses (the documented order is a known C03 finding)
                }
                cases.push((format!("MT{}/generated-base", lay.mt), Case::Block4 { mt: lay.mt.to_string(), text: tok::render(&base, false, false), must_reject: None }));
                let mut r2 = Rng::new(sd, &format!("c01-gen-mut:{}", lay.mt), vi);
                for m in mutate::single_mutations(&base, &pool, &mut r2, full) {
                    cases.push((format!("MT{}/gen:{}", lay.mt, m.kind), Case::Block4 { mt: lay.mt.to_string(), text: tok::render(&m.fields, false, false), must_reject: None }));
                }
            }
        }
    }
    let ncases = cases.len() as u64;
    let total = par_for(cfg, ncases, |i, l| {
        let (lab, case) = &cases[i as usize];
        let kind = lab.split('/').nth(1).unwrap_or("");
        if l.want_sample(kind) {
            l.sample(kind, json!({"label": lab, "case": case}));
        }
        judge(cfg, case, l, lab);
    });
    let mut rep = Report::default();
    rep.extra.insert("hook_events_observed".into(), json!(total.counters.get("hook_events").copied().unwrap_or(0)));
    rep.rule = "cases = block-4 text of every corpus message of all 30 types, each with every single structural mutation (unknown tag at every position, duplicate / delete / swap of every field, foreign well-formed fields, moves, unknown option letter, appended second message, trailing junk line), certainly-invalid content in every structured field, repetition counts around documented caps, LF and CRLF, bare and inside a full envelope. Non-trivial = the parser ran to a verdict (accepted or rejected); distinct = distinct (type, text) digests".into();
    rep.assumptions = vec![
        "reference tokeniser: a field starts at a line start with :NN[A-Z]?:".into(),
        "content equality forgives only line endings and number formatting (leading zeros, trailing decimal zeros)".into(),
    ];
    rep.required_strata = crate::registry::MESSAGES.iter().flat_map(|m| [format!("MT{}/base", m.code), format!("MT{}/insert-unknown", m.code), format!("MT{}/duplicate", m.code)]).collect();
    rep.min_evals = 10000;
    finish(cfg, started, total, rep)
}

pub fn replay(cfg: &Config, case: &Value) -> Local {
    let mut l = Local::default();
    let c: Case = serde_json::from_value(case.clone()).expect("C01 case");
    judge(cfg, &c, &mut l, "replay");
    l
}
