//! C06 — Monetary amounts and rates are accepted only as decimals and preserved exactly.
//!
//! Reference: exact-decimal model on the text (no floats) and an independent ISO-4217 minor-unit
//! table. For every amount/rate-bearing field the amount slot of a valid template is filled with
//! candidates carrying a class label by construction:
//!   MUST_REJECT: any character outside [0-9,.] (NaN, inf, exponent, sign, blank, hex, underscore,
//!     non-ASCII digits), more than one separator, no integer digit, longer than the field's
//!     limit, more decimals than the currency allows (currency-bearing fields);
//!   MUST_ACCEPT: digits , digits within the limit and the currency's precision, value > 0;
//!   not judged: integer without comma, '.' as separator, zero (pinned lenient by unit tests or
//!     undocumented).
//! Every accepted candidate within the limit must keep its exact decimal value through
//! serialise -> re-parse, in the JSON number, and through JSON -> MT.
//! Key: `C06|<FieldType>|<clause>|<class>`.

use crate::jsonu::canon_num;
use crate::monitor::*;
use crate::registry::field;
use crate::rng::{Rng, hash_bytes2};
use serde::{Deserialize, Serialize};
use serde_json::{Value, json};

/// (field type, prefix before the amount, suffix after it, length limit of the amount (d), has currency)
/// `{CCY}` in the prefix is replaced by the currency under test.
pub const FIELDS: &[(&str, &str, &str, usize, bool)] = &[
    ("Field19", "", "", 17, false),
    ("Field32A", "250615{CCY}", "", 15, true),
    ("Field32B", "{CCY}", "", 15, true),
    ("Field32C", "250615{CCY}", "", 15, true),
    ("Field32D", "250615{CCY}", "", 15, true),
    ("Field33B", "{CCY}", "", 15, true),
    ("Field34F", "{CCY}D", "", 15, true),
    ("Field36", "", "", 12, false),
    ("Field37H", "C", "", 12, false),
    ("Field60F", "C250615{CCY}", "", 15, true),
    ("Field60M", "D250615{CCY}", "", 15, true),
    ("Field61", "250615C", "NTRFREF12345", 15, false),
    ("Field62F", "C250615{CCY}", "", 15, true),
    ("Field62M", "D250615{CCY}", "", 15, true),
    ("Field64", "C250615{CCY}", "", 15, true),
    ("Field65", "D250615{CCY}", "", 15, true),
    ("Field71F", "{CCY}", "", 15, true),
    ("Field71G", "{CCY}", "", 15, true),
    ("Field90C", "12{CCY}", "", 15, true),
    ("Field90D", "7{CCY}", "", 15, true),
];

/// independent ISO-4217 minor units (codes not listed: 2)
fn minor_units(ccy: &str) -> usize {
    match ccy {
        "BIF" | "CLP" | "DJF" | "GNF" | "ISK" | "JPY" | "KMF" | "KRW" | "PYG" | "RWF" | "UGX" | "UYI" | "VND" | "VUV" | "XAF" | "XOF" | "XPF" => 0,
        "BHD" | "IQD" | "JOD" | "KWD" | "LYD" | "OMR" | "TND" => 3,
        "CLF" | "UYW" => 4,
        _ => 2,
    }
}
const CURRENCIES: &[&str] = &[
    "USD", "EUR", "GBP", "CHF", "CAD", "AUD", "SEK", "NOK", "DKK", "PLN", "CZK", "HUF", "SGD", "HKD", "ZAR", "MXN", "INR", "CNY", "BRL", "AED", "SAR", "TRY", "NZD",
    "JPY", "KRW", "VND", "CLP", "ISK", "XOF", "XAF", "XPF", "UGX", "PYG", "RWF", "BIF", "DJF", "GNF", "KMF", "VUV",
    "BHD", "KWD", "OMR", "JOD", "TND", "IQD", "LYD", "CLF",
];

#[derive(Clone, Debug, Serialize, Deserialize)]
pub struct Case {
    pub ty: String,
    pub ccy: String,
    pub amount: String,
    pub class: String,
}

fn v(l: &mut Local, ty: &str, clause: &str, class: &str, what: String, case: &Case) {
    l.violation(format!("C06|{ty}|{clause}|{class}"), what, || serde_json::to_value(case).unwrap());
}

#[derive(PartialEq, Clone, Copy, Debug)]
enum Verdict {
    MustAccept,
    MustReject,
    Unspecified,
}

/// three-valued reference verdict on the amount text
fn reference(amount: &str, limit: usize, decimals_allowed: Option<usize>) -> (Verdict, &'static str) {
    if amount.is_empty() {
        return (Verdict::MustReject, "empty");
    }
    if !amount.chars().all(|c| c.is_ascii_digit() || c == ',' || c == '.') {
        return (Verdict::MustReject, "char-outside-decimal-alphabet");
    }
    let seps = amount.chars().filter(|c| *c == ',' || *c == '.').count();
    if seps > 1 {
        return (Verdict::MustReject, "more-than-one-separator");
    }
    if !amount.chars().next().unwrap().is_ascii_digit() {
        return (Verdict::MustReject, "no-integer-digit");
    }
    if amount.len() > limit {
        return (Verdict::MustReject, "longer-than-limit");
    }
    let (int, frac) = match amount.split_once([',', '.']) {
        Some((a, b)) => (a, b),
        None => (amount, ""),
    };
    if let Some(d) = decimals_allowed
        && frac.trim_end_matches('0').len() > d
    {
        return (Verdict::MustReject, "more-decimals-than-currency-allows");
    }
    let _ = int;
    if seps == 0 {
        return (Verdict::Unspecified, "integer-without-comma");
    }
    if amount.contains('.') {
        return (Verdict::Unspecified, "dot-separator");
    }
    if amount.chars().all(|c| c == '0' || c == ',') {
        return (Verdict::Unspecified, "zero");
    }
    if decimals_allowed.is_some() && frac.len() > decimals_allowed.unwrap() {
        // trailing zeros beyond the currency's precision: not settled
        return (Verdict::Unspecified, "trailing-zeros-beyond-precision");
    }
    (Verdict::MustAccept, "plain-decimal")
}

fn amount_of_output(ty: &str, body: &str, prefix_len_hint: usize) -> Option<String> {
    // the amount is the run of [0-9,.] that starts after the non-amount prefix
    let b: Vec<char> = body.chars().collect();
    let mut i = prefix_len_hint.min(b.len());
    // Field90C/D: the leading number of entries may be re-spelled; skip digits then 3 letters
    if ty.starts_with("Field90") {
        i = 0;
        while i < b.len() && b[i].is_ascii_digit() {
            i += 1;
        }
        i += 3;
    }
    let st = i;
    while i < b.len() && (b[i].is_ascii_digit() || b[i] == ',' || b[i] == '.') {
        i += 1;
    }
    if st > b.len() {
        return None;
    }
    Some(b[st..i].iter().collect())
}

fn json_amount(j: &Value) -> Option<&Value> {
    match j {
        Value::Object(m) => {
            for k in ["amount", "rate"] {
                if let Some(x) = m.get(k) {
                    return Some(x);
                }
            }
            m.values().find_map(json_amount)
        }
        _ => None,
    }
}

pub fn judge(case: &Case, l: &mut Local) {
    let (ty, prefix, suffix, limit, has_ccy) = *FIELDS.iter().find(|f| f.0 == case.ty).expect("field");
    let ops = field(ty).unwrap();
    let pre = prefix.replace("{CCY}", &case.ccy);
    let content = format!("{pre}{}{suffix}", case.amount);
    let allowed = if has_ccy { Some(minor_units(&case.ccy)) } else { None };
    let (mut verdict, rclass) = reference(&case.amount, limit, allowed);
    // Field61: the amount is followed directly by the transaction type (1!a3!c), so a candidate that
    // starts with a digit is tokenised as "amount + rest" by the field's own grammar; what the rest
    // then means is a C05 matter. Only candidates that cannot start an amount are judged here.
    if ty == "Field61" && verdict == Verdict::MustReject && case.amount.chars().next().map(|c| c.is_ascii_digit()).unwrap_or(false) && rclass != "longer-than-limit" {
        verdict = Verdict::Unspecified;
    }
    // Field36 documents a plausibility range for rates (pinned by its unit tests): outside it, not judged
    if ty == "Field36" && verdict == Verdict::MustAccept {
        let x: f64 = case.amount.replace(',', ".").parse().unwrap_or(0.0);
        if !(0.0001..=100000.0).contains(&x) {
            verdict = Verdict::Unspecified;
        }
    }
    let stratum = format!("{ty}:{}", case.class);
    let r = match guard(|| (ops.parse)(&content)) {
        Ok(r) => r,
        Err(_) => {
            l.eval(&stratum, "panic(C07)", false, 0);
            return;
        }
    };
    match r {
        Err(_) => {
            l.eval(&stratum, "rejected", true, hash_bytes2(ty, &content));
            if verdict == Verdict::MustAccept {
                let mag = case.amount.split(',').next().unwrap_or("").len();
                let mclass = if mag >= 9 { "integer-digits>=9" } else { "integer-digits<9" };
                v(l, ty, "rejects-valid-amount", &format!("{}:{mclass}", dec_class(allowed)), format!("{ty} rejects the valid amount {:?} ({} {})", case.amount, case.ccy, case.class), case);
            }
        }
        Ok(val) => {
            l.eval(&stratum, "accepted", true, hash_bytes2(ty, &content));
            if verdict == Verdict::MustReject {
                let detail = if rclass == "char-outside-decimal-alphabet" { format!("spelling:{}", case.class) } else if rclass == "more-decimals-than-currency-allows" { format!("decimals>allowed:{}", dec_class(allowed)) } else { rclass.to_string() };
                v(l, ty, "accepts-non-amount", &detail, format!("{ty} accepts {:?} as an amount ({rclass})", case.amount), case);
                return;
            }
            if case.amount.len() > limit {
                return;
            }
            // value preservation is only meaningful for texts that are decimals
            let b = case.amount.as_bytes();
            let is_decimal = !b.is_empty()
                && b[0].is_ascii_digit()
                && case.amount.chars().all(|c| c.is_ascii_digit() || c == ',' || c == '.')
                && case.amount.chars().filter(|c| *c == ',' || *c == '.').count() <= 1;
            if !is_decimal {
                return;
            }
            // value preservation (exact decimal)
            let want = canon_num(&case.amount.replace(',', "."));
            let scale = case.amount.split_once([',', '.']).map(|x| x.1.trim_end_matches('0').len()).unwrap_or(0);
            let sig = case.amount.split([',', '.']).next().unwrap_or("").trim_start_matches('0').len() + scale;
            // more than 15 significant digits cannot be held by the f64 the model uses: own class
            let int_digits = case.amount.split([',', '.']).next().unwrap_or("").trim_start_matches('0').len();
            let printed = match ty {
                "Field37H" => 4,
                "Field36" => scale,
                _ => allowed.unwrap_or(2),
            };
            let sig = sig.max(int_digits + printed.max(scale));
            let scale_class = if sig > 15 { "more-than-15-significant-digits".to_string() } else { if scale > 5 { "scale>5".to_string() } else { format!("scale={scale}") } };
            if let Ok(s) = guard(|| val.to_swift()) {
                let body = s.splitn(3, ':').nth(2).unwrap_or("");
                match amount_of_output(ty, body, pre.chars().count()) {
                    Some(out) => {
                        let got = canon_num(&out.replace(',', "."));
                        if got != want {
                            v(l, if sig > 15 { "f64" } else { ty }, "value-changed-by-serialisation", &scale_class, format!("{ty}: amount {:?} is serialised as {:?}", case.amount, out), case);
                        } else if let Some(d) = allowed
                            && d > 0
                            && sig <= 15
                            && case.amount.split_once(',').map(|x| x.1.len()) == Some(d)
                            && !(case.amount.starts_with('0') && !case.amount.starts_with("0,"))
                            && out != case.amount
                        {
                            // the documented spelling of a currency amount carries exactly the currency's decimals
                            // ("1234,56", "123,456" for BHD): an amount written that way and within the limit is
                            // the library's own spelling and must come back character for character
                            v(l, ty, "documented-spelling-not-reproduced", &format!("{}:len{}", dec_class(allowed), if case.amount.len() == limit { "=max" } else { "<max" }), format!("{ty}: amount {:?} ({}), written with the currency's own decimals, is serialised as {:?}", case.amount, case.ccy, out), case);
                        }
                    }
                    None => {}
                }
                // ... and re-parsing: what the library writes for an accepted amount it must read again, with
                // the same value
                match guard(|| (ops.parse)(body)) {
                    Ok(Ok(v2)) => {
                        if let Ok(Ok(j2)) = guard(|| v2.json())
                            && let Some(Value::Number(n)) = json_amount(&j2)
                            && sig <= 15
                            && canon_num(&n.to_string()) != want
                            && amount_of_output(ty, body, pre.chars().count()).map(|o| canon_num(&o.replace(',', ".")) == want).unwrap_or(false)
                        {
                            v(l, ty, "value-changed-by-re-parsing", &scale_class, format!("{ty}: amount {:?} is serialised as {body:?} and read back as {n}", case.amount), case);
                        }
                    }
                    Ok(Err(_)) => {
                        let out = amount_of_output(ty, body, pre.chars().count()).unwrap_or_default();
                        let why = if out.len() > limit { format!("written-longer-than-limit:{}", dec_class(allowed)) } else { "other".to_string() };
                        v(l, ty, "own-serialisation-not-readable", &why, format!("{ty}: accepted amount {:?} is serialised as {body:?}, which the same parser rejects", case.amount), case);
                    }
                    Err(_) => {}
                }
            }
            if let Ok(Ok(j)) = guard(|| val.json()) {
                match json_amount(&j) {
                    Some(Value::Number(n)) => {
                        if canon_num(&n.to_string()) != want {
                            v(l, if sig > 15 { "f64" } else { ty }, "value-changed-in-json", &scale_class, format!("{ty}: amount {:?} is {} in JSON", case.amount, n), case);
                        }
                    }
                    Some(other) => v(l, ty, "json-amount-not-a-number", "-", format!("{ty}: amount {:?} is {other} in JSON", case.amount), case),
                    None => {}
                }
                // the JSON route must be as strict as the text route: an amount leaf that is not a JSON number
                // (a string in any float spelling) must not be read, or at least never come out as MT text
                if case.class == "one" || case.class == "half" {
                    for bad in ["NaN", "inf", "-inf", "1e3", "-5", ".5", "0x10", "100,50", "", "1_000"] {
                        let mut jb = j.clone();
                        fn set_amount(v: &mut Value, nv: &Value) -> bool {
                            if let Value::Object(m) = v {
                                for k in ["amount", "rate"] {
                                    if m.contains_key(k) {
                                        m.insert(k.to_string(), nv.clone());
                                        return true;
                                    }
                                }
                                for x in m.values_mut() {
                                    if set_amount(x, nv) {
                                        return true;
                                    }
                                }
                            }
                            false
                        }
                        if !set_amount(&mut jb, &Value::String(bad.to_string())) {
                            break;
                        }
                        if let Ok(Ok(vb)) = guard(|| (ops.from_json)(&jb)) {
                            let out = guard(|| vb.to_swift()).unwrap_or_default();
                            v(l, ty, "json-accepts-non-number", "string", format!("{ty}: an amount given as the JSON string {bad:?} is read and serialised as {out:?}"), case);
                        }
                    }
                }
                if let Ok(Ok(v2)) = guard(|| (ops.from_json)(&j))
                    && let Ok(s2) = guard(|| v2.to_swift())
                {
                    let body = s2.splitn(3, ':').nth(2).unwrap_or("");
                    if let Some(out) = amount_of_output(ty, body, pre.chars().count())
                        && canon_num(&out.replace(',', ".")) != want
                    {
                        v(l, if sig > 15 { "f64" } else { ty }, "value-changed-json-to-mt", &scale_class, format!("{ty}: amount {:?} comes back from JSON as {:?}", case.amount, out), case);
                    }
                }
            }
        }
    }
}

fn dec_class(allowed: Option<usize>) -> String {
    match allowed {
        Some(d) => format!("{d}-decimal-currency"),
        None => "no-currency".into(),
    }
}

pub const SPELLINGS: &[(&str, &str)] = &[
    ("NaN", "NaN"), ("nan", "nan"), ("inf", "inf"), ("infinity", "infinity"), ("-inf", "-inf"), ("1e3", "1e3"), ("1E-2", "1E-2"), ("1,5e2", "1,5e2"),
    ("plus-sign", "+5,00"), ("minus-sign", "-5,00"), ("minus-zero", "-0"), ("leading-dot", ".5"), ("leading-comma", ",5"), ("trailing-dot", "5."), ("dot-decimal", "1.5"),
    ("two-commas", "1,5,5"), ("comma-and-dot", "1,000.50"), ("inner-blank", "1 5"), ("leading-blank", " 5,00"), ("trailing-blank", "5,00 "), ("hex", "0x10"),
    ("underscore", "1_000"), ("arabic-indic-digits", "١٢,٠٠"), ("fullwidth-digits", "１２,００"), ("empty", ""), ("letters", "ABC"), ("slash", "1/2"), ("percent", "5%"),
    ("thousands-apostrophe", "1'000,00"), ("newline-inside", "1\n,00"),
];

pub fn run(cfg: &Config) -> i32 {
    let started = std::time::Instant::now();
    let mut cases: Vec<Case> = Vec::new();
    let thorough = cfg.tier == Tier::Thorough;
    let mut r = Rng::new(cfg.seed, "c06", 0);
    for (ty, _, _, limit, has_ccy) in FIELDS {
        let ccys: Vec<&str> = if *has_ccy {
            CURRENCIES.to_vec()
        } else {
            vec!["USD"]
        };
        for ccy in &ccys {
            // spellings a float parser would take
            for (lab, s) in SPELLINGS {
                cases.push(Case { ty: ty.to_string(), ccy: ccy.to_string(), amount: s.to_string(), class: lab.to_string() });
            }
            // magnitudes x decimals: integer digits 1..16, decimals 0..5
            for int_digits in 1..=17usize {
                for dec in 0..=5usize {
                    let variants: Vec<String> = {
                        let mut vv = vec!["9".repeat(int_digits), format!("1{}", "0".repeat(int_digits - 1))];
                        if thorough {
                            vv.push((0..int_digits).map(|k| char::from(b'1' + ((k * 7 + dec) % 9) as u8)).collect());
                            vv.push(r.string(crate::gen_::DIGITS, int_digits).trim_start_matches('0').to_string() + "5");
                        }
                        vv
                    };
                    for int in variants {
                        if int.is_empty() {
                            continue;
                        }
                        let frac: String = (0..dec).map(|k| char::from(b'1' + ((k * 3 + int_digits) % 9) as u8)).collect();
                        let amount = if dec == 0 { format!("{int},") } else { format!("{int},{frac}") };
                        let class = format!("int{}:dec{}{}", int.len(), dec, if amount.len() > *limit { ":over-limit" } else { "" });
                        cases.push(Case { ty: ty.to_string(), ccy: ccy.to_string(), amount, class });
                    }
                }
            }
            // decimal parts that begin or end with zeros (a decimal count taken after trimming zeros on the wrong
            // side lets "1000,005" pass for a two-decimal currency)
            for int in ["1000", "7"] {
                for frac in ["05", "005", "0005", "00005", "50", "500", "0050", "010", "0100", "000"] {
                    let amount = format!("{int},{frac}");
                    cases.push(Case { ty: ty.to_string(), ccy: ccy.to_string(), amount, class: format!("int{}:dec{}:zeros-in-decimals", int.len(), frac.len()) });
                }
            }
            // the currency's own number of decimals ending in zeros, at the limit and one below it
            if *has_ccy {
                let d = minor_units(ccy);
                if d > 0 {
                    for total in [*limit, limit - 1, limit - 2] {
                        let int_len = total - 1 - d;
                        for frac in ["0".repeat(d), format!("5{}", "0".repeat(d - 1))] {
                            let amount = format!("{},{frac}", "123456789012345".chars().take(int_len).collect::<String>());
                            cases.push(Case { ty: ty.to_string(), ccy: ccy.to_string(), amount, class: format!("int{int_len}:dec{d}:ends-in-zero:len{}", if total == *limit { "=max".to_string() } else { format!("=max-{}", limit - total) }) });
                        }
                    }
                }
            }
            // ordinary magnitudes with many decimals: total lengths around and beyond the limit (a length check
            // hidden behind a range or magnitude check only shows here)
            for int in ["1", "12", "99999"] {
                for total in [limit.saturating_sub(1), *limit, limit + 1, limit + 2, limit + 3] {
                    if total <= int.len() + 1 {
                        continue;
                    }
                    let frac: String = (0..total - int.len() - 1).map(|k| char::from(b'1' + ((k * 3 + 1) % 9) as u8)).collect();
                    let amount = format!("{int},{frac}");
                    let class = format!("small-int:len{}{}", if total > *limit { "+" } else { "" }, if total > *limit { format!("{}", total - limit) } else { format!("={}", total) });
                    cases.push(Case { ty: ty.to_string(), ccy: ccy.to_string(), amount, class });
                }
            }
            // integers written without the comma at and just below the length limit (where the library takes that
            // spelling, what it writes back must still be something it reads)
            for (lab, n) in [("no-comma:len=max", *limit), ("no-comma:len=max-1", limit.saturating_sub(1)), ("no-comma:len=max-2", limit.saturating_sub(2))] {
                if n >= 1 {
                    cases.push(Case { ty: ty.to_string(), ccy: ccy.to_string(), amount: "9".repeat(n), class: lab.to_string() });
                    cases.push(Case { ty: ty.to_string(), ccy: ccy.to_string(), amount: format!("1{}", "0".repeat(n - 1)), class: lab.to_string() });
                }
            }
            // small values and zero, trailing zeros, leading zeros, no comma
            for (lab, s) in [("zero", "0,"), ("zero-2dec", "0,00"), ("one-cent", "0,01"), ("leading-zeros", "000123,45"), ("no-comma", "12345"), ("trailing-zeros", "12,3400"), ("one", "1,"), ("half", "0,5")] {
                cases.push(Case { ty: ty.to_string(), ccy: ccy.to_string(), amount: s.to_string(), class: lab.to_string() });
            }
        }
    }
    let n = cases.len() as u64;
    let total = par_for(cfg, n, |i, l| {
        let case = &cases[i as usize];
        let lab = format!("{}:{}", case.ty, if case.class.starts_with("int") { "magnitude" } else { "spelling" });
        if l.want_sample(&lab) {
            l.sample(&lab, serde_json::to_value(case).unwrap());
        }
        judge(case, l);
    });
    let mut rep = Report::default();
    rep.exhaustive = thorough;
    rep.rule = "cases = 20 amount/rate-bearing field types x currencies (47 ISO-4217 codes covering 0/2/3/4 decimals) x {30 non-decimal spellings, magnitudes 9..9 and 10..0 for 1..17 integer digits x 0..5 decimals (around every length limit), zero / leading zeros / trailing zeros / no comma}. Non-trivial = the field parser ran on the candidate; distinct = distinct (field, content) digests".into();
    rep.assumptions = vec![
        "exact-decimal comparison is done on canonical decimal strings; JSON numbers through their shortest round-trip rendering".into(),
        "independent ISO-4217 minor-unit table; integer-without-comma, '.' separator, zero and surplus trailing zeros are not judged".into(),
    ];
    rep.required_strata = FIELDS.iter().map(|f| format!("{}:NaN", f.0)).collect();
    rep.min_evals = 10000;
    let _ = json!(null);
    finish(cfg, started, total, rep)
}

pub fn replay(_cfg: &Config, case: &Value) -> Local {
    let mut l = Local::default();
    let c: Case = serde_json::from_value(case.clone()).expect("C06 case");
    judge(&c, &mut l);
    l
}
