//! C16 — The field-map tokeniser and sequential consumption lose and reorder nothing.
//!
//! (a) `parse_block4_fields(x)` is compared with the reference tokeniser: same occurrences (tag under
//!     the documented normalisation, content up to surrounding white space), stamps strictly
//!     increasing in input order, nothing invented.
//! (b) recorded call/return histories of the tracker API (`find_field_with_variant_sequential_*`,
//!     `get_next_available`, `mark_consumed`) are checked against a sequential model: every
//!     occurrence handed out at most once, in input order within its tag, only allowed variants,
//!     and a final drain hands out every remaining occurrence exactly once.
//! (c) `split_into_sequences` / `parse_repetitive_sequence` are checked for conservation
//!     (A + B + C = input, items partition the marker-delimited range).
//! Key: `C16|<function>|<clause>|<class>`.

use crate::corpus::{self, Corpus};
use crate::monitor::*;
use crate::mutate;
use crate::rng::{Rng, hash_bytes2};
use crate::tok::{self, Token};
use serde::{Deserialize, Serialize};
use serde_json::{Value, json};
use std::collections::{BTreeMap, BTreeSet, HashMap};
use swift_mt_message::parser::{
    FieldConsumptionTracker, find_field_with_variant_sequential_constrained, find_field_with_variant_sequential_numbered,
    get_sequence_config, parse_block4_fields, parse_repetitive_sequence, split_into_sequences,
};

#[derive(Clone, Debug, Serialize, Deserialize)]
pub enum Op {
    Find { base: String, variants: Option<Vec<String>>, numbered: bool },
    Next { tag: String },
    MarkNext { tag: String },
    /// mark the k-th still unconsumed occurrence (k >= 1: not the first) as consumed, i.e. consumption
    /// out of input order as `parse_sequences` does when it marks a whole sequence
    #[serde(alias = "MarkAt")]
    MarkLater { tag: String, k: usize },
}

#[derive(Clone, Debug, Serialize, Deserialize)]
pub enum Case {
    Tok { text: String, class: String },
    History { text: String, ops: Vec<Op> },
    Split { text: String, config: String },
    /// `parse_sequences::<T>` with a probe item type of the given name (the function dispatches on the name)
    Sequences { text: String, item: String },
}

/// Field numbers whose option letter the library documents as kept ("fields that have multiple
/// variants"), restated from the SWIFT field inventory of the 30 supported types.
const MULTI_VARIANT: &[&str] = &[
    "11", "13", "21", "23", "25", "26", "28", "32", "33", "34", "37", "50", "51", "52", "53", "54", "55", "56", "57",
    "58", "59", "60", "62", "71", "77", "90",
];

/// Acceptable keys for a raw tag under the documented normalisation rule
fn acceptable_keys(raw: &str) -> Vec<String> {
    let num = &raw[..2];
    if raw.len() == 2 || MULTI_VARIANT.contains(&num) {
        vec![raw.to_string()]
    } else {
        // letter of a field without documented variants: stripping is documented, keeping is tolerated
        vec![num.to_string(), raw.to_string()]
    }
}

fn v(l: &mut Local, func: &str, clause: &str, class: &str, what: String, case: &Case) {
    l.violation(format!("C16|{func}|{clause}|{class}"), what, || serde_json::to_value(case).unwrap());
}

type Map = HashMap<String, Vec<(String, usize)>>;

fn flatten(map: &Map) -> Vec<(String, String, usize)> {
    let mut all: Vec<(String, String, usize)> = Vec::new();
    for (t, vs) in map {
        for (val, pos) in vs {
            all.push((t.clone(), val.clone(), *pos));
        }
    }
    all.sort_by_key(|x| x.2);
    all
}

fn judge_tok(text: &str, class: &str, l: &mut Local, case: &Case, stratum: &str) -> Option<Map> {
    let r = guard(|| parse_block4_fields(text));
    let map = match r {
        Ok(Ok(m)) => m,
        Ok(Err(_)) => {
            l.eval(stratum, "rejected", true, hash_bytes2("tok", text));
            return None;
        }
        Err(_) => {
            l.eval(stratum, "panic(C07)", false, 0);
            return None;
        }
    };
    l.eval(stratum, "tokenised", true, hash_bytes2("tok", text));
    let reference = tok::tokenize(text);
    let all = flatten(&map);
    // stamps strictly increasing == all distinct (sorted by stamp) and order equals input order
    let mut seen = BTreeSet::new();
    for (_, _, p) in &all {
        if !seen.insert(*p) {
            v(l, "parse_block4_fields", "stamp-not-strictly-increasing", class, format!("two field occurrences carry the same position stamp {p} ({class})"), case);
            return Some(map);
        }
    }
    // within each key the Vec must be in stamp order
    for (t, vs) in &map {
        if vs.windows(2).any(|w| w[0].1 >= w[1].1) {
            v(l, "parse_block4_fields", "values-out-of-order", class, format!("values under key {t} are not in increasing stamp order ({class})"), case);
        }
    }
    let rf = &reference.fields;
    if all.len() != rf.len() {
        let clause = if all.len() < rf.len() { "occurrence-missing" } else { "occurrence-invented" };
        v(
            l,
            "parse_block4_fields",
            clause,
            class,
            format!("reference tokeniser sees {} fields, the field map holds {} ({class})", rf.len(), all.len()),
            case,
        );
        return Some(map);
    }
    for (i, (t, val, _)) in all.iter().enumerate() {
        let r = &rf[i];
        if !acceptable_keys(&r.tag).contains(t) {
            v(
                l,
                "parse_block4_fields",
                "tag-normalisation",
                &format!("{}->{}", r.tag, t),
                format!("occurrence {i} has raw tag {} but is filed under {t} ({class})", r.tag),
                case,
            );
            return Some(map);
        }
        let mut want = r.content.trim().to_string();
        let mut got = tok::normalize_newlines(val).trim().to_string();
        if i == rf.len() - 1 && reference.terminator {
            // the primary domain is the text without terminator; with one, report it under its own class
            if got != want {
                let stripped = got.trim_end_matches('-').trim_end().to_string();
                if stripped == want {
                    v(l, "parse_block4_fields", "content-altered", "terminator-swallowed", format!("the block terminator '-' is taken into the last field's value"), case);
                    return Some(map);
                }
            }
        }
        if got != want {
            want.truncate(60);
            got.truncate(60);
            v(
                l,
                "parse_block4_fields",
                "content-altered",
                class,
                format!("occurrence {i} ({}) content differs from the text ({class}): {:?} vs {:?}", r.tag, got, want),
                case,
            );
            return Some(map);
        }
    }
    Some(map)
}

fn judge_history(text: &str, ops: &[Op], l: &mut Local, case: &Case, stratum: &str) {
    let Ok(Ok(map)) = guard(|| parse_block4_fields(text)) else {
        l.eval(stratum, "rejected", false, 0);
        return;
    };
    // model: all occurrences (key, pos) and which are consumed
    let mut consumed: BTreeSet<(String, usize)> = BTreeSet::new();
    let mut last_pos_per_key: BTreeMap<String, usize> = BTreeMap::new();
    let mut tracker = FieldConsumptionTracker::new();
    let mut events = 0u64;
    let bases: BTreeSet<String> = map.keys().map(|k| k[..k.len().min(2)].to_string()).collect();

    let mut check_find = |base: &str,
                          variants: &Option<Vec<String>>,
                          ret: &Option<(String, Option<String>, usize)>,
                          consumed: &mut BTreeSet<(String, usize)>,
                          last: &mut BTreeMap<String, usize>,
                          l: &mut Local| {
        // candidates by the model
        let mut cands: Vec<(String, usize, String)> = Vec::new();
        for (k, vs) in &map {
            let is_exact = k == base;
            let is_variant = k.len() == base.len() + 1 && k.starts_with(base) && k.chars().last().unwrap().is_ascii_uppercase();
            if !(is_exact || is_variant) {
                continue;
            }
            if is_variant
                && let Some(vv) = variants
                && !vv.iter().any(|x| x.as_str() == &k[base.len()..])
            {
                continue;
            }
            for (val, pos) in vs {
                if !consumed.contains(&(k.clone(), *pos)) {
                    cands.push((k.clone(), *pos, val.clone()));
                }
            }
        }
        cands.sort_by_key(|c| c.1);
        match ret {
            None => {
                if !cands.is_empty() {
                    v(
                        l,
                        "find_field_with_variant_sequential",
                        "occurrence-never-returned",
                        "none-while-available",
                        format!("lookup of base {base} (variants {variants:?}) returned nothing while {} unconsumed occurrence(s) qualify", cands.len()),
                        case,
                    );
                }
            }
            Some((val, var, pos)) => {
                let key = format!("{base}{}", var.clone().unwrap_or_default());
                let in_map = map.get(&key).map(|vs| vs.iter().any(|(x, p)| x == val && p == pos)).unwrap_or(false);
                if !in_map {
                    v(l, "find_field_with_variant_sequential", "invented", "not-in-map", format!("returned ({key}, pos {pos}) which is not an occurrence of the map"), case);
                    return;
                }
                if let (Some(vv), Some(x)) = (variants, var)
                    && !vv.contains(x)
                {
                    v(l, "find_field_with_variant_sequential", "variant-not-allowed", "constraint-ignored", format!("returned variant {x} outside the allowed set {vv:?}"), case);
                }
                if !consumed.insert((key.clone(), *pos)) {
                    v(l, "find_field_with_variant_sequential", "handed-out-twice", "same-occurrence", format!("occurrence ({key}, pos {pos}) handed out twice"), case);
                    return;
                }
                if let Some(prev) = last.get(&key)
                    && *prev >= *pos
                {
                    v(l, "find_field_with_variant_sequential", "out-of-order", "within-tag", format!("occurrences of {key} handed out out of input order ({prev} then {pos})"), case);
                }
                last.insert(key.clone(), *pos);
                // input order across the qualifying occurrences: exact key first is tolerated
                let min_all = cands.first().map(|c| c.1);
                let min_exact = cands.iter().filter(|c| c.0 == base).map(|c| c.1).min();
                if Some(*pos) != min_all && Some(*pos) != min_exact {
                    v(
                        l,
                        "find_field_with_variant_sequential",
                        "out-of-order",
                        "across-variants",
                        format!("lookup of base {base} returned pos {pos} while an earlier qualifying occurrence at {:?} is unconsumed", min_all),
                        case,
                    );
                }
            }
        }
    };

    for op in ops {
        events += 1;
        match op {
            Op::Find { base, variants, numbered } => {
                let vv: Option<Vec<&str>> = variants.as_ref().map(|v| v.iter().map(|s| s.as_str()).collect());
                let ret = if *numbered {
                    guard(|| find_field_with_variant_sequential_numbered(&map, base, &mut tracker, vv.clone(), &format!("{base}#1")))
                } else {
                    guard(|| find_field_with_variant_sequential_constrained(&map, base, &mut tracker, vv.as_deref()))
                };
                let Ok(ret) = ret else { return };
                check_find(base, variants, &ret, &mut consumed, &mut last_pos_per_key, l);
            }
            Op::Next { tag } => {
                if let Some(vs) = map.get(tag) {
                    let Ok(ret) = guard(|| tracker.get_next_available(tag, vs).map(|(a, b)| (a.to_string(), b))) else { return };
                    let want = vs.iter().find(|(_, p)| !consumed.contains(&(tag.clone(), *p))).map(|(a, b)| (a.clone(), *b));
                    if ret != want {
                        v(
                            l,
                            "get_next_available",
                            "wrong-occurrence",
                            "not-first-unconsumed",
                            format!("get_next_available({tag}) returned {:?}, the first unconsumed occurrence is {:?}", ret.map(|x| x.1), want.map(|x| x.1)),
                            case,
                        );
                    }
                }
            }
            Op::MarkLater { tag, k } => {
                if let Some(vs) = map.get(tag) {
                    let un: Vec<usize> = vs.iter().map(|x| x.1).filter(|p| !consumed.contains(&(tag.clone(), *p))).collect();
                    if un.len() >= 2 {
                        let p = un[1 + (*k % (un.len() - 1))];
                        tracker.mark_consumed(tag, p);
                        consumed.insert((tag.clone(), p));
                    }
                }
            }
            Op::MarkNext { tag } => {
                if let Some(vs) = map.get(tag)
                    && let Some((_, p)) = vs.iter().find(|(_, p)| !consumed.contains(&(tag.clone(), *p)))
                {
                    tracker.mark_consumed(tag, *p);
                    consumed.insert((tag.clone(), *p));
                    last_pos_per_key.insert(tag.clone(), *p);
                }
            }
        }
    }
    // drain: every remaining occurrence must come out exactly once
    for base in &bases {
        let mut guard_n = 0;
        loop {
            guard_n += 1;
            if guard_n > 100_000 {
                v(l, "find_field_with_variant_sequential", "drain-does-not-terminate", "loop", format!("draining base {base} does not terminate"), case);
                break;
            }
            let Ok(ret) = guard(|| find_field_with_variant_sequential_constrained(&map, base, &mut tracker, None)) else { return };
            events += 1;
            let none = ret.is_none();
            check_find(base, &None, &ret, &mut consumed, &mut last_pos_per_key, l);
            if none {
                break;
            }
        }
    }
    let total: usize = map
        .iter()
        .filter(|(k, _)| k.len() <= 3 && k.len() >= 2 && (k.len() == 2 || k.chars().last().unwrap().is_ascii_uppercase()))
        .map(|(_, v)| v.len())
        .sum();
    let got = consumed.iter().filter(|(k, _)| k.len() <= 3).count();
    if got < total {
        v(
            l,
            "find_field_with_variant_sequential",
            "occurrence-never-returned",
            "after-drain",
            format!("{} of {} occurrences were never handed out after draining every base tag", total - got, total),
            case,
        );
    }
    l.count("history_calls", events);
    l.eval(stratum, "history-checked", true, hash_bytes2(text, &format!("{ops:?}")));
}

fn triples(m: &Map) -> Vec<(String, String, usize)> {
    let mut out = flatten(m);
    out.sort();
    out
}

fn judge_split(text: &str, config: &str, l: &mut Local, case: &Case, stratum: &str) {
    let Ok(Ok(map)) = guard(|| parse_block4_fields(text)) else {
        l.eval(stratum, "rejected", false, 0);
        return;
    };
    // "statement" is a hand-built configuration of the documented statement shape (marker 61, closing fields in
    // sequence C): the library ships no named configuration that reaches that branch
    let cfgq = if config == "statement" {
        swift_mt_message::parser::SequenceConfig { sequence_b_marker: "61".into(), sequence_c_fields: ["62", "64", "65", "86"].iter().map(|s| s.to_string()).collect(), has_sequence_c: true }
    } else {
        get_sequence_config(config)
    };
    let Ok(Ok(ps)) = guard(|| split_into_sequences(&map, &cfgq)) else {
        l.eval(stratum, "split-error", true, hash_bytes2(config, text));
        return;
    };
    l.eval(stratum, "split", true, hash_bytes2(config, text));
    let mut union = triples(&ps.sequence_a);
    union.extend(triples(&ps.sequence_b));
    union.extend(triples(&ps.sequence_c));
    union.sort();
    let want = triples(&map);
    if union != want {
        let clause = if union.len() < want.len() {
            "field-lost"
        } else if union.len() > want.len() {
            "field-duplicated"
        } else {
            "field-altered"
        };
        v(l, "split_into_sequences", clause, config, format!("sequences A+B+C hold {} occurrences, the input map holds {} (config {config})", union.len(), want.len()), case);
    }
    // placement, as far as the module documents it: what precedes the first sequence-B marker is sequence A, the
    // first marker itself opens sequence B, a configuration without sequence C fills none, and with the statement
    // shape the first closing field other than 86 after the start of B opens sequence C for all that follows
    {
        let all = flatten(&map);
        let mk = cfgq.sequence_b_marker.as_str();
        let is_marker = |t: &str| t == mk || (mk == "23" && t == "25");
        let first = if mk == "20" && all.iter().filter(|x| x.0 == "20").count() > 1 { all.iter().enumerate().filter(|(_, x)| x.0 == "20").nth(1).map(|x| x.0) } else { all.iter().position(|x| is_marker(&x.0)) };
        let inside = |m: &Map, x: &(String, String, usize)| m.get(&x.0).map(|v| v.iter().any(|(c, p)| *c == x.1 && *p == x.2)).unwrap_or(false);
        let always_a = |t: &str| matches!(t, "72" | "77E" | "79");
        for (i, x) in all.iter().enumerate() {
            let before = first.map(|f| i < f).unwrap_or(true);
            if before && !inside(&ps.sequence_a, x) {
                v(l, "split_into_sequences", "field-before-first-marker-not-in-A", config, format!("field {} precedes the first sequence-B marker {mk} but is not placed in sequence A (config {config})", x.0), case);
                break;
            }
        }
        if let Some(f) = first
            && !always_a(&all[f].0)
            && !inside(&ps.sequence_b, &all[f])
        {
            v(l, "split_into_sequences", "first-marker-not-in-B", config, format!("the first marker {mk} does not open sequence B (config {config})"), case);
        }
        if !cfgq.has_sequence_c && !ps.sequence_c.is_empty() {
            v(l, "split_into_sequences", "sequence-C-filled-without-sequence-C", config, format!("config {config} has no sequence C but sequence C holds fields"), case);
        }
        if config == "statement"
            && let Some(f) = first
            && let Some(cs) = all.iter().enumerate().skip(f).find(|(_, x)| x.0 != "86" && cfgq.sequence_c_fields.iter().any(|c| c.trim_end_matches(char::is_alphabetic) == x.0.trim_end_matches(char::is_alphabetic))).map(|x| x.0)
        {
            for (i, x) in all.iter().enumerate().skip(f) {
                if always_a(&x.0) {
                    continue;
                }
                let want_c = i >= cs;
                if want_c != inside(&ps.sequence_c, x) {
                    v(l, "split_into_sequences", if want_c { "closing-field-not-in-C" } else { "statement-line-in-C" }, config, format!("field {} at index {i}: sequence C starts at index {cs} (first closing field other than 86), placement disagrees", x.0), case);
                    break;
                }
            }
        }
    }
    // repetitive items: partition of everything from the first marker on
    let marker = cfgq.sequence_b_marker.clone();
    if let Ok(Ok(items)) = guard(|| parse_repetitive_sequence::<swift_mt_message::messages::MT101>(&map, &marker)) {
        let all = flatten(&map);
        let first = all.iter().position(|(t, _, _)| *t == marker);
        let expect: Vec<(String, String, usize)> = match first {
            Some(i) => {
                let mut x = all[i..].to_vec();
                x.sort();
                x
            }
            None => vec![],
        };
        let mut got: Vec<(String, String, usize)> = Vec::new();
        for it in &items {
            got.extend(triples(it));
            let f = flatten(it);
            if f.first().map(|x| x.0.as_str()) != Some(marker.as_str()) {
                v(l, "parse_repetitive_sequence", "item-does-not-start-with-marker", config, format!("an item of the repetitive sequence does not start with marker {marker}"), case);
            }
        }
        got.sort();
        if got != expect {
            v(l, "parse_repetitive_sequence", "not-a-partition", config, format!("items hold {} occurrences, the marker-delimited range holds {}", got.len(), expect.len()), case);
        }
    }
}


/// Probe item types for `parse_sequences`, which chooses its grouping rule by the *name* of the item type:
/// each probe keeps the text block it is handed, so the grouping can be read off
mod probes {
    use serde::Serialize;
    use swift_mt_message::SwiftMessageBody;
    macro_rules! probe {
        ($($n:ident),*) => {$(
            #[derive(Debug, Clone, Serialize)]
            pub struct $n {
                pub block4: String,
            }
            impl SwiftMessageBody for $n {
                fn message_type() -> &'static str {
                    "000"
                }
                fn parse_from_block4(b: &str) -> swift_mt_message::Result<Self> {
                    Ok($n { block4: b.to_string() })
                }
                fn to_mt_string(&self) -> String {
                    self.block4.clone()
                }
            }
        )*};
    }
    probe!(MT101Transaction, MT104Transaction, MT110Cheque, MT204Transaction, MT920Sequence, MT935RateChange, MT940StatementLine, MT942StatementLine);
}

fn judge_sequences(text: &str, item: &str, l: &mut Local, case: &Case, stratum: &str) {
    use swift_mt_message::parser::{FieldConsumptionTracker, parse_sequences};
    let Ok(Ok(map)) = guard(|| parse_block4_fields(text)) else {
        l.eval(stratum, "rejected", false, 0);
        return;
    };
    let mut tracker = FieldConsumptionTracker::new();
    macro_rules! run {
        ($t:ty) => {
            guard(|| parse_sequences::<$t>(&map, &mut tracker).map(|v| v.into_iter().map(|x| x.block4).collect::<Vec<String>>()))
        };
    }
    let r = match item {
        "MT101Transaction" => run!(probes::MT101Transaction),
        "MT104Transaction" => run!(probes::MT104Transaction),
        "MT110Cheque" => run!(probes::MT110Cheque),
        "MT204Transaction" => run!(probes::MT204Transaction),
        "MT920Sequence" => run!(probes::MT920Sequence),
        "MT935RateChange" => run!(probes::MT935RateChange),
        "MT940StatementLine" => run!(probes::MT940StatementLine),
        _ => run!(probes::MT942StatementLine),
    };
    let Ok(Ok(items)) = r else {
        l.eval(stratum, "error-or-panic(C07)", false, 0);
        return;
    };
    l.eval(stratum, "grouped", true, hash_bytes2(item, text));
    let all = flatten(&map);
    // what each item holds, read with the reference tokeniser
    let held: Vec<Vec<(String, String)>> = items.iter().map(|b| tok::tokenize(b).fields.into_iter().map(|f| (f.tag, f.content.trim().to_string())).collect()).collect();
    // (1) nothing invented, nothing handed out twice: the items' fields are a sub-multiset of the input's
    let mut pool: Vec<(String, String)> = all.iter().map(|x| (x.0.clone(), x.1.clone())).collect();
    for it in &held {
        for f in it {
            // map keys of numbers without documented variants carry no letter: compare on the number then
            if let Some(i) = pool.iter().position(|p| p.1 == f.1 && (p.0 == f.0 || p.0 == f.0[..2.min(f.0.len())])) {
                pool.remove(i);
            } else {
                v(l, "parse_sequences", "field-in-two-items-or-invented", item, format!("an item holds field {} with a content that is not (or no longer) available in the input ({item})", f.0), case);
                return;
            }
        }
    }
    // (2) consumption agrees with the grouping: what is in an item is consumed, what is in none is still available
    let mut still: Vec<(String, String)> = Vec::new();
    for (k, vs) in &map {
        let mut n = 0;
        while let Some((val, pos)) = tracker.get_next_available(k, vs).map(|(a, b)| (a.to_string(), b)) {
            tracker.mark_consumed(k, pos);
            still.push((k.clone(), val));
            n += 1;
            if n > vs.len() {
                break;
            }
        }
    }
    let mut a = pool.clone();
    let mut b = still.clone();
    a.sort();
    b.sort();
    // (the MT204Transaction branch rebuilds its items from the per-tag lists and documents no consumption)
    if a != b && item != "MT204Transaction" {
        v(l, "parse_sequences", "consumption-disagrees-with-grouping", item, format!("{} occurrences are in no item but {} are still available from the tracker ({item})", a.len(), b.len()), case);
    }
    // (3) the documented statement-line rule: an item is one field 61 and at most the one field 86 that follows it
    if item == "MT942StatementLine" {
        for it in &held {
            let n61 = it.iter().filter(|f| f.0 == "61").count();
            let n86 = it.iter().filter(|f| f.0 == "86").count();
            if n61 != 1 || n86 > 1 || it.len() != n61 + n86 {
                v(l, "parse_sequences", "statement-line-item-not-61-plus-one-86", item, format!("a statement-line item holds {:?}", it.iter().map(|f| f.0.as_str()).collect::<Vec<_>>()), case);
                break;
            }
        }
    }
}

pub fn judge(_cfg: &Config, case: &Case, l: &mut Local, stratum: &str) {
    match case {
        Case::Tok { text, class } => {
            judge_tok(text, class, l, case, stratum);
        }
        Case::History { text, ops } => judge_history(text, ops, l, case, stratum),
        Case::Split { text, config } => judge_split(text, config, l, case, stratum),
        Case::Sequences { text, item } => judge_sequences(text, item, l, case, stratum),
    }
}

fn random_ops(map_tags: &[String], r: &mut Rng, n: usize) -> Vec<Op> {
    let mut ops = Vec::new();
    let letters = ["A", "B", "C", "D", "F", "G", "H", "K", "L"];
    for _ in 0..n {
        let t = r.pick(map_tags).clone();
        let base = t[..t.len().min(2)].to_string();
        match r.below(10) {
            0..=5 => {
                let variants = if r.chance(1, 2) {
                    let k = 1 + r.below(3);
                    let mut vs: Vec<String> = (0..k).map(|_| r.pick(&letters).to_string()).collect();
                    if t.len() == 3 && r.chance(2, 3) {
                        vs.push(t[2..].to_string());
                    }
                    vs.sort();
                    vs.dedup();
                    Some(vs)
                } else {
                    None
                };
                ops.push(Op::Find { base, variants, numbered: r.chance(1, 4) });
            }
            6..=7 => ops.push(Op::Next { tag: t }),
            8 => ops.push(Op::MarkLater { tag: t, k: r.below(4) }),
            _ => ops.push(Op::MarkNext { tag: t }),
        }
    }
    ops
}

/// For every field number present under two or more option letters: the letters requested one by one in
/// every order (preceded by the non-C/L group, followed by an unconstrained request), plain and numbered
fn systematic_histories(t: &str, tags: &[String]) -> Vec<Case> {
    let mut out = Vec::new();
            // systematic: for every field number present under two or more option letters, the letters are
            // requested one by one in every order (then unconstrained), plain and numbered
                let mut by_base: BTreeMap<String, Vec<String>> = BTreeMap::new();
                for tg in tags {
                    if tg.len() == 3 {
                        let e = by_base.entry(tg[..2].to_string()).or_default();
                        if !e.contains(&tg[2..].to_string()) {
                            e.push(tg[2..].to_string());
                        }
                    }
                }
                for (base, letters) in &by_base {
                    if letters.len() < 2 || letters.len() > 4 {
                        continue;
                    }
                    // all permutations of the letters
                    let mut perms: Vec<Vec<String>> = vec![vec![]];
                    for _ in 0..letters.len() {
                        let mut next = Vec::new();
                        for p in &perms {
                            for x in letters {
                                if !p.contains(x) {
                                    let mut q = p.clone();
                                    q.push(x.clone());
                                    next.push(q);
                                }
                            }
                        }
                        perms = next;
                    }
                    for p in perms {
                        for numbered in [false, true] {
                            let mut ops: Vec<Op> = p.iter().map(|x| Op::Find { base: base.clone(), variants: Some(vec![x.clone()]), numbered }).collect();
                            // groups as the message parsers use them (instructing party C/L vs the rest)
                            ops.insert(0, Op::Find { base: base.clone(), variants: Some(letters.iter().filter(|x| !matches!(x.as_str(), "C" | "L")).cloned().collect()), numbered });
                            ops.push(Op::Find { base: base.clone(), variants: None, numbered });
                            out.push(Case::History { text: t.to_string(), ops });
                        }
                    }
                }
    out
}

pub fn run(cfg: &Config) -> i32 {
    let started = std::time::Instant::now();
    let c = Corpus::load(&cfg.verif_dir);
    let contents = corpus::field_contents(&c);
    let pool = mutate::pool_from(&contents);
    let mut cases: Vec<(String, Case)> = Vec::new();
    let mut r = Rng::new(cfg.seed, "c16-build", 0);
    let hist_per_text = cfg.tier.pick(6usize, 120usize);
    for (k, e) in c.entries.iter().enumerate() {
        let Some(b4) = corpus::block4_of(&e.text) else { continue };
        let toks = tok::tokenize(&b4);
        let base: &Vec<Token> = &toks.fields;
        let plain = tok::render(base, false, false);
        // the primary domain: the text as extract_block returns it
        cases.push(("tok/extract_block".into(), Case::Tok { text: b4.clone(), class: "as-extracted".into() }));
        cases.push(("tok/lf".into(), Case::Tok { text: plain.clone(), class: "lf".into() }));
        cases.push(("tok/crlf".into(), Case::Tok { text: tok::render(base, true, false), class: "crlf".into() }));
        cases.push(("tok/with-terminator".into(), Case::Tok { text: tok::render(base, false, true), class: "with-terminator".into() }));
        // mixed line ends: LF first then CRLF, CRLF first then LF, alternating
        {
            let nl = plain.matches('\n').count();
            for (class, pick) in [("lf-then-crlf", 0usize), ("crlf-then-lf", 1), ("alternating", 2)] {
                let mut i = 0usize;
                let mut t = String::with_capacity(plain.len() + nl);
                for ch in plain.chars() {
                    if ch == '\n' {
                        let crlf = match pick {
                            0 => i >= nl / 2,
                            1 => i < nl / 2,
                            _ => i % 2 == 1,
                        };
                        if crlf {
                            t.push('\r');
                        }
                        i += 1;
                    }
                    t.push(ch);
                }
                cases.push((format!("tok/{class}"), Case::Tok { text: t, class: format!("mixed:{class}") }));
            }
        }
        // a field with empty or blank content, at every position (the occurrence is still a field of the text)
        for pos in 0..base.len() {
            for (lab, c) in [("empty-content", ""), ("blank-content", "   ")] {
                let mut f = base.to_vec();
                f[pos].content = c.to_string();
                cases.push((format!("tok/{lab}"), Case::Tok { text: tok::render(&f, false, false), class: lab.to_string() }));
                if pos % 4 == 0 {
                    cases.push((format!("split/{lab}"), Case::Split { text: tok::render(&f, false, false), config: format!("MT{}", e.mt) }));
                }
            }
        }
        let muts = mutate::single_mutations(base, &pool, &mut r, false);
        for m in &muts {
            cases.push((format!("tok/mut:{}", m.kind), Case::Tok { text: tok::render(&m.fields, false, false), class: format!("mut:{}", m.kind) }));
        }
        // histories over the original and over a few mutants (duplicates give several occurrences per tag)
        let mut texts = vec![plain.clone()];
        for m in muts.iter().filter(|m| matches!(m.kind, "duplicate" | "append-second-message" | "move" | "swap-adjacent")).take(4) {
            texts.push(tok::render(&m.fields, false, false));
        }
        for (ti, t) in texts.iter().enumerate() {
            let tags: Vec<String> = tok::tokenize(t).fields.iter().map(|f| f.tag.clone()).collect();
            if tags.is_empty() {
                continue;
            }
            if ti == 0 {
                for c in systematic_histories(t, &tags) {
                    cases.push(("history-systematic".into(), c));
                }
            }
            for h in 0..hist_per_text {
                let mut rr = Rng::new(cfg.seed, "c16-hist", (k * 1000 + ti * 200 + h) as u64);
                let n = 2 + rr.below(14);
                cases.push(("history".into(), Case::History { text: t.clone(), ops: random_ops(&tags, &mut rr, n) }));
            }
        }
        for item in ["MT101Transaction", "MT104Transaction", "MT110Cheque", "MT204Transaction", "MT920Sequence", "MT935RateChange", "MT940StatementLine", "MT942StatementLine"] {
            cases.push((format!("sequences/{item}"), Case::Sequences { text: plain.clone(), item: item.into() }));
        }
        // statement texts with a message-level 86 right behind the last 61 / 86 pair (no 90C / 90D in between)
        if e.mt == "942" || e.mt == "940" {
            let fs: Vec<Token> = toks.fields.iter().filter(|f| !f.tag.starts_with("90")).cloned().collect();
            let mut with86 = fs.clone();
            if let Some(i) = with86.iter().rposition(|f| f.tag == "61") {
                let at = if with86.get(i + 1).map(|f| f.tag == "86").unwrap_or(false) { i + 2 } else { i + 1 };
                if with86.get(i + 1).map(|f| f.tag != "86").unwrap_or(true) {
                    with86.insert(i + 1, Token { tag: "86".into(), content: "LINE INFORMATION".into() });
                }
                let at = at.max(i + 2).min(with86.len());
                with86.insert(at, Token { tag: "86".into(), content: "INFORMATION TO THE ACCOUNT OWNER".into() });
                for item in ["MT942StatementLine", "MT940StatementLine"] {
                    cases.push((format!("sequences/{item}"), Case::Sequences { text: tok::render(&with86, false, false), item: item.into() }));
                }
            }
        }
        for config in ["MT101", "MT104", "MT107", "MT110", "MT204", "MT935", "MT940", "MT942", "MT000", "statement"] {
            cases.push((format!("split/{config}"), Case::Split { text: plain.clone(), config: config.into() }));
        }
    }
    // synthetic texts in which one field number occurs under several option letters, in an order the message
    // parsers do not use
    for t in [
        ":20:REF\n:50F:/ACC\n1/NAME\n:50L:PARTY\n:50K:/ACC2\nNAME\n:59:/ACC3\nBEN",
        ":20:REF\n:50K:/ACC2\nNAME\n:50C:BANKDEFF\n:50A:/ACC\nBANKDEFF\n:50L:PARTY",
        ":20:REF\n:59:/ACC\nNAME\n:59A:/ACC\nBANKDEFF\n:59F:/ACC\n1/NAME",
        ":20:REF\n:52D:NAME\n:52A:BANKDEFF\n:52C:/CLR\n:57A:BANKDEFF\n:57D:NAME",
    ] {
        let tags: Vec<String> = tok::tokenize(t).fields.iter().map(|f| f.tag.clone()).collect();
        for c in systematic_histories(t, &tags) {
            cases.push(("history-systematic".into(), c));
        }
    }
    // numbered tags ("50#1", "50#2": kept verbatim as map keys) consumed through the tracker by their full tag
    for t in [
        ":20:REF\n:50#1:/ACC\nNAME\n:50#2:BANKDEFF\n:50#1:/ACC2\nNAME2\n:50#2:BANKGB2L\n:59:/X\nY",
        ":20:REF\n:50#1:A\n:50#1:B\n:50#1:C\n:50:/P\nQ\n:50#2:D",
        ":21:R1\n:32B:EUR1,\n:50#2:X\n:21:R2\n:32B:EUR2,\n:50#2:Y\n:21:R3\n:50#2:Z",
    ] {
        let keys = ["50#1", "50#2", "50", "21", "32B"];
        let mut k = 0u64;
        // every key: next / mark alternately to exhaustion, then the same with one out-of-order mark first
        for key in keys {
            let drain: Vec<Op> = (0..4).flat_map(|_| vec![Op::Next { tag: key.to_string() }, Op::MarkNext { tag: key.to_string() }]).chain(std::iter::once(Op::Next { tag: key.to_string() })).collect();
            cases.push(("history-numbered".into(), Case::History { text: t.to_string(), ops: drain.clone() }));
            let mut later = vec![Op::MarkLater { tag: key.to_string(), k: 0 }];
            later.extend(drain);
            cases.push(("history-numbered".into(), Case::History { text: t.to_string(), ops: later }));
        }
        for _ in 0..cfg.tier.pick(40, 400) {
            k += 1;
            let mut rr = Rng::new(cfg.seed, "c16-numbered", k);
            let n = 3 + rr.below(12);
            let ops: Vec<Op> = (0..n)
                .map(|_| {
                    let tag = rr.pick(&keys).to_string();
                    match rr.below(4) {
                        0 | 1 => Op::Next { tag },
                        2 => Op::MarkNext { tag },
                        _ => Op::MarkLater { tag, k: rr.below(3) },
                    }
                })
                .collect();
            cases.push(("history-numbered".into(), Case::History { text: t.to_string(), ops }));
        }
    }
    // large texts: stamp packing beyond 65535 fields (quick: 70k once; thorough: three sizes)
    for nfields in cfg.tier.pick(vec![1000usize, 5000, 70_000], vec![1000, 4095, 4097, 5000, 33_000, 65_535, 65_537, 70_000]) {
        let mut s = String::with_capacity(nfields * 12);
        for i in 0..nfields {
            s.push_str(&format!(":20:R{i}\n"));
        }
        s.pop();
        let class = if nfields > 65_535 { "more-than-65535-fields" } else { "many-fields" };
        cases.push((format!("tok/{class}"), Case::Tok { text: s, class: class.into() }));
    }
    let n = cases.len() as u64;
    let total = par_for(cfg, n, |i, l| {
        let (lab, case) = &cases[i as usize];
        if l.want_sample(lab) && !lab.contains("fields") {
            l.sample(lab, json!({"label": lab, "case": case}));
        }
        judge(cfg, case, l, lab);
    });
    let mut rep = Report::default();
    rep.extra.insert("tracker_calls_checked".into(), json!(total.counters.get("history_calls").copied().unwrap_or(0)));
    rep.rule = "cases = block-4 text of every corpus message (as extracted, LF, CRLF, with terminator) and of its structural mutants through parse_block4_fields against the reference tokeniser; many short random call histories of the tracker API per text (lookups by base tag with random variant constraints, queries, marks, then a drain phase) checked against a sequential model; split_into_sequences with every sequence configuration; field counts beyond the 16-bit stamp. Non-trivial = the tokeniser produced a map / a history was executed; distinct = distinct (text, history) digests".into();
    rep.assumptions = vec![
        "reference tokeniser: a field starts at a line start with :NN[A-Z]?:".into(),
        "option letters must be kept for the field numbers with documented variants; for other numbers both spellings are tolerated".into(),
        "exact-key-first lookup order is tolerated next to strict input order".into(),
    ];
    rep.required_strata = vec!["tok/extract_block".into(), "history".into(), "split/MT104".into(), "tok/mut:duplicate".into()];
    rep.min_evals = 1000;
    finish(cfg, started, total, rep)
}

pub fn replay(cfg: &Config, case: &Value) -> Local {
    let mut l = Local::default();
    let c: Case = serde_json::from_value(case.clone()).expect("C16 case");
    judge(cfg, &c, &mut l, "replay");
    l
}
