//! C15 — Shipped scenarios always generate valid, exactly round-trippable messages.
//!
//! Every scenario file found under <repo>/test_scenarios at run time is drawn N times through the
//! real generate plugin, and each draw goes through the real publish -> validate -> parse plugins
//! (the workflow of tests/end2end.rs). The monitor compares the parsed JSON with the generated
//! JSON exactly: only null == absent; numbers by exact decimal value (no rounding).
//! The generated JSON is the stored witness, so replay does not depend on the random source.
//! Key: `C15|MT<type>/<scenario>|<stage>|<json path pattern or error class>`.

use crate::corpus::scenario_files;
use crate::jsonu::first_diff;
use crate::monitor::*;
use crate::rng::hash_str;
use serde::{Deserialize, Serialize};
use serde_json::{Value, json};

#[derive(Clone, Debug, Serialize, Deserialize)]
pub struct Case {
    pub mt: String,
    pub scenario: String,
    pub generated: Value,
}

fn v(l: &mut Local, c: &Case, stage: &str, detail: &str, what: String) {
    l.violation(format!("C15|MT{}/{}|{}|{}", c.mt, c.scenario, stage, detail), what, || serde_json::to_value(c).unwrap());
}

fn err_class(e: &str) -> String {
    // keep the part of the message that names the structural cause, drop concrete values
    let e = e.replace('\n', " ");
    let cut: String = e.chars().take_while(|c| !c.is_ascii_digit() && *c != '\'' && *c != '"' && *c != '`').collect();
    cut.trim().chars().take(70).collect()
}

pub fn judge(c: &Case, l: &mut Local) {
    let stratum = format!("MT{}/{}", c.mt, c.scenario);
    let p = match guard(|| crate::plug::pipeline(&c.generated)) {
        Ok(p) => p,
        Err(pi) => {
            l.eval(&stratum, "panic", true, hash_str(&c.generated.to_string()));
            v(l, c, "panic", &pi.file, format!("pipeline panicked at {}:{}: {}", pi.file, pi.line, pi.msg.chars().take(80).collect::<String>()));
            return;
        }
    };
    l.eval(&stratum, "drawn", true, hash_str(&c.generated.to_string()));
    let text = match &p.mt_text {
        Ok(t) => t,
        Err(e) => {
            v(l, c, "publish", &err_class(e), format!("generated JSON does not publish: {}", e.chars().take(160).collect::<String>()));
            return;
        }
    };
    // shapes seen (coverage)
    let longest = text.lines().map(|x| x.len()).max().unwrap_or(0);
    l.count(&format!("shape:longest-line:{}", (longest / 5) * 5), 1);
    match &p.validation {
        Ok(j) => {
            let valid = j["valid"].as_bool().unwrap_or(false);
            if !valid {
                let first = j["errors"][0].as_str().unwrap_or("").to_string();
                let code: String = first.chars().skip_while(|c| *c != '[').take_while(|c| *c != ']').collect();
                let detail = if code.is_empty() { err_class(&first) } else { format!("{code}]") };
                v(l, c, "validate", &detail, format!("published message does not validate: {}", first.chars().take(160).collect::<String>()));
            }
        }
        Err(e) => v(l, c, "validate", &err_class(e), format!("validate plugin failed: {}", e.chars().take(160).collect::<String>())),
    }
    match &p.parsed {
        Ok(j) => {
            if let Some(d) = first_diff(&c.generated, j) {
                v(l, c, "round-trip", &d, format!("parsed JSON differs from generated JSON at {d}"));
            }
        }
        Err(e) => v(l, c, "parse", &err_class(e), format!("published message does not parse: {}", e.chars().take(160).collect::<String>())),
    }
}

pub fn run(cfg: &Config) -> i32 {
    let started = std::time::Instant::now();
    let files = scenario_files(&cfg.repo_dir);
    let mut schemas: Vec<(String, String, Value)> = Vec::new();
    for (mt, scen) in &files {
        let path = format!("{}/test_scenarios/mt{}/{}.json", cfg.repo_dir, mt, scen);
        match std::fs::read_to_string(&path).ok().and_then(|t| serde_json::from_str::<Value>(&t).ok()) {
            Some(v) => schemas.push((mt.clone(), scen.clone(), v)),
            None => eprintln!("C15: cannot read scenario {path}"),
        }
    }
    let draws = cfg.tier.pick(1500u64, 20000u64);
    let ns = schemas.len() as u64;
    let n = ns * draws;
    let total = par_for(cfg, n, |i, l| {
        let (mt, scen, schema) = &schemas[(i % ns) as usize];
        let generated = match guard(|| crate::plug::generate(schema)) {
            Ok(Ok(g)) => g,
            Ok(Err(e)) => {
                let c = Case { mt: mt.clone(), scenario: scen.clone(), generated: Value::Null };
                l.eval(&format!("MT{mt}/{scen}"), "generate-failed", true, i);
                v(l, &c, "generate", &err_class(&e), format!("scenario does not generate: {}", e.chars().take(160).collect::<String>()));
                return;
            }
            Err(_) => return,
        };
        let c = Case { mt: mt.clone(), scenario: scen.clone(), generated };
        let lab = format!("MT{mt}");
        if l.want_sample(&lab) {
            l.sample(&lab, json!({"scenario": scen, "generated_fields": c.generated.get("fields")}));
        }
        judge(&c, l);
    });
    // tail hunting: many more draws of the generator alone; the pipeline runs only on draws in which a
    // string leaf is longer than anything seen before at its place (the rare long names that hit a
    // line limit), starts or ends with a blank, or contains two blanks in a row - the rare shapes in
    // which length and trimming mistakes show
    let hunt = cfg.tier.pick(6_000u64, 120_000u64);
    let mut total = total;
    let t2 = par_for(cfg, ns * hunt, |i, l| {
        let (mt, scen, schema) = &schemas[(i % ns) as usize];
        let Ok(Ok(generated)) = guard(|| crate::plug::generate(schema)) else { return };
        l.count("hunt:generated", 1);
        // per worker thread: longest value seen so far at each (scenario, JSON path)
        thread_local! {
            static RECORDS: std::cell::RefCell<std::collections::HashMap<(u64, String), usize>> = std::cell::RefCell::new(Default::default());
        }
        let mut suspicious = false;
        let si = i % ns;
        crate::jsonu::walk(generated.get("fields").unwrap_or(&Value::Null), &mut |p, v| {
            if let Value::String(s) = v {
                let n = s.chars().count();
                if s.starts_with(' ') || s.ends_with(' ') || s.contains("  ") {
                    suspicious = true;
                }
                RECORDS.with(|r| {
                    let mut r = r.borrow_mut();
                    let e = r.entry((si, p.to_string())).or_insert(0);
                    if n > *e {
                        // a new longest value at this place (after the first sighting)
                        if *e > 0 {
                            suspicious = true;
                        }
                        *e = n;
                    }
                });
            }
        });
        if suspicious {
            l.count("hunt:pipeline-runs", 1);
            let c = Case { mt: mt.clone(), scenario: scen.clone(), generated };
            judge(&c, l);
        }
    });
    total.merge(t2);
    let mut rep = Report::default();
    rep.extra.insert("tail_hunt_draws_per_scenario".into(), json!(hunt));
    rep.extra.insert("scenario_files".into(), json!(schemas.len()));
    rep.extra.insert("draws_per_scenario".into(), json!(draws));
    rep.extra.insert(
        "entropy".into(),
        json!(std::env::var("VERIF_ENTROPY_SEED").map(|s| format!("LD_PRELOAD shim seeded {s}")).unwrap_or_else(|_| "operating system".into())),
    );
    rep.rule = "cases = every scenario file discovered under test_scenarios (all 30 types) x N draws of the real datafake generator, each through the real publish, validate and parse plugin handlers; non-trivial = every draw (all four handlers run); distinct = distinct generated JSON documents".into();
    rep.assumptions = vec!["draws are random: coverage of generator outputs is statistical".into(), "null and absent are identified; numbers are compared by exact decimal value".into()];
    rep.required_strata = schemas.iter().map(|(mt, s, _)| format!("MT{mt}/{s}")).collect();
    rep.min_evals = ns;
    finish(cfg, started, total, rep)
}

pub fn replay(_cfg: &Config, case: &Value) -> Local {
    let mut l = Local::default();
    let c: Case = serde_json::from_value(case.clone()).expect("C15 case");
    judge(&c, &mut l);
    l
}
