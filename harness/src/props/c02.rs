//! C02 — MT round trip is stable: re-parsing serialised output gives the same message, and the
//! serialised text is a fixed point.
//!
//! Purely metamorphic monitor (the library is compared with itself): for every accepted input x,
//! y = ser(parse(x)) must be accepted, parse(y) must equal parse(x) under three views (Debug
//! string, serde_json::Value, re-serialisation), and ser(parse(y)) must equal y byte for byte.
//! Key: `C02|<level>|<Type>|<clause>` with clause in {reparse-rejected, value-changed:<json path>,
//! not-fixpoint, tag-changed}.

use crate::corpus::{self, Corpus};
use crate::gen_ as g;
use crate::jsonu::first_diff;
use crate::monitor::*;
use crate::mutate;
use crate::registry::{FIELDS, MESSAGES};
use crate::rng::{Rng, hash_bytes2, hash_str};
use crate::tok;
use serde::{Deserialize, Serialize};
use serde_json::{Value, json};

#[derive(Clone, Debug, Serialize, Deserialize)]
pub enum Case {
    Block4 { mt: String, text: String },
    Full { text: String },
    Field { ty: String, input: String, variant: Option<String> },
}

fn viol(l: &mut Local, level: &str, ty: &str, clause: String, what: String, case: &Case) {
    l.violation(format!("C02|{level}|{ty}|{clause}"), what, || serde_json::to_value(case).unwrap());
}

pub fn judge(_cfg: &Config, case: &Case, l: &mut Local, stratum: &str) {
    match case {
        Case::Block4 { mt, text } => {
            let ops = crate::registry::msg(mt).expect("type");
            let p1 = match guard(|| (ops.parse_b4)(text)) {
                Ok(Ok(p)) => p,
                Ok(Err(_)) => {
                    l.eval(stratum, "rejected", false, 0);
                    return;
                }
                Err(_) => {
                    l.eval(stratum, "panic(C07)", false, 0);
                    return;
                }
            };
            let Ok(y) = guard(|| p1.to_mt()) else {
                l.eval(stratum, "panic(C07)", false, 0);
                return;
            };
            l.eval(stratum, "accepted", true, hash_bytes2(mt, text));
            let p2 = match guard(|| (ops.parse_b4)(&y)) {
                Ok(Ok(p)) => p,
                Ok(Err(e)) => {
                    viol(
                        l,
                        "msg",
                        &format!("MT{mt}"),
                        format!("reparse-rejected:{}", err_class(&e)),
                        format!("MT{mt}: serialised output of an accepted text is rejected on re-parse: {}", short(&e.to_string())),
                        case,
                    );
                    return;
                }
                Err(_) => return,
            };
            if p1.dbg() != p2.dbg() || p1.json().ok() != p2.json().ok() {
                let (path, class) = match (p1.json(), p2.json()) {
                    (Ok(a), Ok(b)) => {
                        let p = first_diff(&a, &b).unwrap_or_else(|| "debug-only".into());
                        let c = change_class(&a, &b, &p);
                        (p, c)
                    }
                    _ => ("json-error".into(), "".into()),
                };
                let (tag, leaf) = tag_of_path(&path);
                viol(
                    l,
                    "msg-field",
                    &tag,
                    format!("value-changed:{leaf}:{class}"),
                    format!("field {tag} inside a message: second parse differs from first at {leaf} ({class}); first seen in MT{mt} at {path}"),
                    case,
                );
                return;
            }
            if let Ok(y2) = guard(|| p2.to_mt())
                && y2 != y
            {
                viol(
                    l,
                    "msg",
                    &format!("MT{mt}"),
                    "not-fixpoint".into(),
                    format!("MT{mt}: serialising the second parse does not reproduce the serialised text"),
                    case,
                );
            }
        }
        Case::Full { text } => {
            let Some(code) = type_code_of(text) else {
                l.eval(stratum, "no-type", false, 0);
                return;
            };
            let Some(ops) = crate::registry::msg(&code) else {
                l.eval(stratum, "unsupported", false, 0);
                return;
            };
            let p1 = match guard(|| (ops.parse_full)(text)) {
                Ok(Ok(p)) => p,
                Ok(Err(_)) => {
                    l.eval(stratum, "rejected", false, 0);
                    return;
                }
                Err(_) => {
                    l.eval(stratum, "panic(C07)", false, 0);
                    return;
                }
            };
            let Ok(y) = guard(|| p1.to_mt_message()) else {
                l.eval(stratum, "panic(C07)", false, 0);
                return;
            };
            l.eval(stratum, "accepted", true, hash_bytes2("full", text));
            let p2 = match guard(|| (ops.parse_full)(&y)) {
                Ok(Ok(p)) => p,
                Ok(Err(e)) => {
                    viol(
                        l,
                        "full",
                        &format!("MT{code}"),
                        "reparse-rejected".into(),
                        format!("MT{code}: to_mt_message output of an accepted message is rejected on re-parse: {}", short(&e.to_string())),
                        case,
                    );
                    return;
                }
                Err(_) => return,
            };
            if p1.dbg() != p2.dbg() || p1.json().ok() != p2.json().ok() {
                let path = match (p1.json(), p2.json()) {
                    (Ok(a), Ok(b)) => first_diff(&a, &b).unwrap_or_else(|| "debug-only".into()),
                    _ => "json-error".into(),
                };
                let top = path.split('/').next().unwrap_or("").to_string();
                if top == "fields" {
                    let class = match (p1.json(), p2.json()) {
                        (Ok(a), Ok(b)) => change_class(&a, &b, &path),
                        _ => String::new(),
                    };
                    let (tag, leaf) = tag_of_path(&path);
                    viol(
                        l,
                        "msg-field",
                        &tag,
                        format!("value-changed:{leaf}:{class}"),
                        format!("field {tag} inside a message: second parse differs from first at {leaf} ({class}); first seen in MT{code} at {path}"),
                        case,
                    );
                } else {
                    viol(
                        l,
                        "full-envelope",
                        &top,
                        format!("value-changed:{path}"),
                        format!("envelope: second parse of the full message differs from the first at {path} (first seen in MT{code})"),
                        case,
                    );
                }
                return;
            }
            if let Ok(y2) = guard(|| p2.to_mt_message())
                && y2 != y
            {
                viol(
                    l,
                    "full",
                    &format!("MT{code}"),
                    "not-fixpoint".into(),
                    format!("MT{code}: to_mt_message of the second parse does not reproduce the first output"),
                    case,
                );
            }
        }
        Case::Field { ty, input, variant } => {
            let ops = crate::registry::field(ty).expect("field type");
            let r = match variant {
                None => guard(|| (ops.parse)(input)),
                Some(v) => guard(|| (ops.parse_variant)(input, Some(v.as_str()), None)),
            };
            let v1 = match r {
                Ok(Ok(v)) => v,
                Ok(Err(_)) => {
                    l.eval(stratum, "rejected", false, 0);
                    return;
                }
                Err(_) => {
                    l.eval(stratum, "panic(C07)", false, 0);
                    return;
                }
            };
            let Ok(s1) = guard(|| v1.to_swift()) else {
                l.eval(stratum, "panic(C07)", false, 0);
                return;
            };
            l.eval(stratum, "accepted", true, hash_bytes2(ty, input) ^ hash_str(variant.as_deref().unwrap_or("-")));
            let Some((tag, body)) = tok::split_swift_string(&s1) else {
                viol(
                    l,
                    "field",
                    ty,
                    "no-tag-prefix".into(),
                    format!("{ty}: to_swift_string output does not start with a :TAG: prefix"),
                    case,
                );
                return;
            };
            let is_enum = crate::registry::is_enum_type(ty);
            let letter = tag.get(2..).unwrap_or("").to_string();
            let r2 = if is_enum {
                guard(|| (ops.parse_variant)(&body, Some(letter.as_str()), None))
            } else {
                guard(|| (ops.parse)(&body))
            };
            let v2 = match r2 {
                Ok(Ok(v)) => v,
                Ok(Err(e)) => {
                    viol(
                        l,
                        "field",
                        ty,
                        format!("reparse-rejected:{}", err_class(&e)),
                        format!("{ty}: own serialisation of an accepted value is rejected on re-parse: {}", short(&e.to_string())),
                        case,
                    );
                    return;
                }
                Err(_) => return,
            };
            if v1.dbg() != v2.dbg() || v1.json().ok() != v2.json().ok() {
                let (path, class) = match (v1.json(), v2.json()) {
                    (Ok(a), Ok(b)) => {
                        let p = first_diff(&a, &b).unwrap_or_else(|| "debug-only".into());
                        let c = change_class(&a, &b, &p);
                        (p, c)
                    }
                    _ => ("json-error".into(), "".into()),
                };
                viol(
                    l,
                    "field",
                    ty,
                    format!("value-changed:{path}:{class}"),
                    format!("{ty}: re-parsing its own serialisation changes the value at {path} ({class})"),
                    case,
                );
                return;
            }
            if let Ok(s2) = guard(|| v2.to_swift())
                && s2 != s1
            {
                viol(
                    l,
                    "field",
                    ty,
                    "not-fixpoint".into(),
                    format!("{ty}: serialising the re-parsed value does not reproduce the first serialisation"),
                    case,
                );
            }
        }
    }
}

/// Class of a value change at `path` between two JSON documents: for numbers whether the change
/// is exactly what rounding to 2 (or 4) decimals does, otherwise "other". Keeps a known
/// fixed-precision formatting defect from hiding any other change at the same place.
fn change_class(a: &Value, b: &Value, path: &str) -> String {
    fn at<'a>(v: &'a Value, path: &str, other: &'a Value) -> Option<(&'a Value, &'a Value)> {
        // follow the pattern path; `#` means the first index at which the two documents differ
        let mut x = v;
        let mut y = other;
        for seg in path.split('/') {
            if seg.is_empty() {
                continue;
            }
            if seg == "#" && x.is_object() {
                x = x.get(seg)?;
                y = y.get(seg)?;
            } else if seg == "#" {
                let (xa, ya) = (x.as_array()?, y.as_array()?);
                let i = xa.iter().zip(ya).position(|(p, q)| p != q)?;
                x = &xa[i];
                y = &ya[i];
            } else {
                x = x.get(seg)?;
                y = y.get(seg)?;
            }
        }
        Some((x, y))
    }
    let clean = path.split('(').next().unwrap_or(path);
    match at(a, clean, b) {
        Some((Value::Number(x), Value::Number(y))) => {
            let (x, y) = (x.as_f64().unwrap_or(f64::NAN), y.as_f64().unwrap_or(f64::NAN));
            if !x.is_finite() || !y.is_finite() {
                return "non-finite".into();
            }
            let r2 = format!("{x:.2}").parse::<f64>().unwrap_or(f64::NAN);
            let r4 = format!("{x:.4}").parse::<f64>().unwrap_or(f64::NAN);
            if (y - r2).abs() < 1e-9 && (x - r2).abs() > 1e-9 {
                "rounded-to-2-decimals".into()
            } else if (y - r4).abs() < 1e-9 && (x - r4).abs() > 1e-12 {
                "rounded-to-4-decimals".into()
            } else {
                "number-other".into()
            }
        }
        Some((Value::String(x), Value::String(y))) => {
            if x.trim_start_matches('/') == y.trim_start_matches('/') {
                "leading-slash".into()
            } else {
                "string-other".into()
            }
        }
        _ => "structure".into(),
    }
}

/// For a message-level path such as `#/#/61/amount` return (tag, leaf path) = ("61", "amount")
fn tag_of_path(path: &str) -> (String, String) {
    let segs: Vec<&str> = path.split('/').collect();
    for (i, s) in segs.iter().enumerate() {
        let base = s.split('_').next().unwrap_or(s);
        let base = base.split('(').next().unwrap_or(base);
        if tok::is_tag(base) {
            return (s.split('(').next().unwrap_or(s).to_string(), segs[i + 1..].join("/"));
        }
    }
    ("?".into(), path.to_string())
}

/// error kind and the tag it names (no input data)
pub fn err_class(e: &swift_mt_message::errors::ParseError) -> String {
    use swift_mt_message::errors::ParseError as P;
    match e {
        P::InvalidFieldFormat(x) => format!("InvalidFieldFormat:{}", x.field_tag),
        P::MissingRequiredField { field_tag, .. } => format!("MissingRequiredField:{field_tag}"),
        P::InvalidFormat { message } => {
            let m: String = message.chars().take_while(|c| !c.is_ascii_digit() && *c != ':').collect();
            format!("InvalidFormat:{}", m.trim())
        }
        P::SwiftValidation(v) => format!("SwiftValidation:{}", v.error_code()),
        other => format!("{}", format!("{other:?}").split(|c: char| !c.is_alphanumeric()).next().unwrap_or("")),
    }
}

fn short(s: &str) -> String {
    s.chars().take(100).collect::<String>().replace('\n', "\\n")
}

/// three-digit type code from block 2 by the reference splitter
pub fn type_code_of(full: &str) -> Option<String> {
    let blocks = tok::split_blocks(full)?;
    let b2 = &blocks.iter().find(|(id, _)| id == "2")?.1;
    b2.get(1..4).map(|s| s.to_string())
}

/// spelling tweaks of a field content (label, content)
pub fn tweaks(c: &str) -> Vec<(&'static str, String)> {
    let mut v: Vec<(&'static str, String)> = vec![
        ("trail-space", format!("{c} ")),
        ("lead-space", format!(" {c}")),
        ("trail-newline", format!("{c}\n")),
        ("lowercase", c.to_lowercase()),
    ];
    if c.contains(',') {
        v.push(("comma-to-dot", c.replacen(',', ".", 1)));
        v.push(("extra-decimal-digit", c.replacen(',', ",1", 1)));
        v.push(("extra-decimal-zero", insert_after_decimals(c, "0")));
        v.push(("third-decimal", insert_after_decimals(c, "5")));
        v.push(("fourth-decimals", insert_after_decimals(c, "55")));
        if let Some(i) = c.find(',') {
            // drop the decimals: "123,45" -> "123,"
            let end = c[i + 1..].find(|ch: char| !ch.is_ascii_digit()).map(|e| i + 1 + e).unwrap_or(c.len());
            v.push(("no-decimals", format!("{}{}", &c[..=i], &c[end..])));
            v.push(("no-comma", format!("{}{}", &c[..i], &c[end..])));
            // leading zeros in the integer part
            let start = c[..i].rfind(|ch: char| !ch.is_ascii_digit()).map(|s| s + 1).unwrap_or(0);
            v.push(("leading-zeros", format!("{}00{}", &c[..start], &c[start..])));
            v.push(("big-integer-part", format!("{}987654321{}", &c[..start], &c[start..])));
        }
    }
    if c.starts_with('/') {
        // a bare slash where a party identifier / account is expected
        let rest = c.split_once('\n').map(|x| x.1).unwrap_or("");
        v.push(("bare-slash-first-line", if rest.is_empty() { "/".to_string() } else { format!("/\n{rest}") }));
        v.push(("no-leading-slash", c[1..].to_string()));
    } else {
        v.push(("added-leading-slash", format!("/{c}")));
    }
    if c.contains('\n') {
        let lines: Vec<&str> = c.split('\n').collect();
        v.push(("drop-last-line", lines[..lines.len() - 1].join("\n")));
        v.push(("blank-line-inside", {
            let mut l2: Vec<&str> = lines.clone();
            l2.insert(1, "");
            l2.join("\n")
        }));
        v.push(("dup-last-line", format!("{c}\n{}", lines[lines.len() - 1])));
        v.push(("first-line-only", lines[0].to_string()));
    } else {
        v.push(("second-line", format!("{c}\nSECOND LINE")));
        v.push(("bic-second-line", format!("{c}\nDEUTDEFFXXX")));
    }
    if c.len() >= 11 && c.ends_with("XXX") {
        v.push(("bic-without-branch", c[..c.len() - 3].to_string()));
    }
    v
}

fn insert_after_decimals(c: &str, digits: &str) -> String {
    let Some(i) = c.find(',') else { return c.to_string() };
    let end = c[i + 1..].find(|ch: char| !ch.is_ascii_digit()).map(|e| i + 1 + e).unwrap_or(c.len());
    format!("{}{}{}", &c[..end], digits, &c[end..])
}

fn field_types_for_tag(tag: &str) -> Vec<&'static str> {
    let num = &tag[..2];
    FIELDS
        .iter()
        .filter(|f| f.name.strip_prefix("Field").map(|r| r.starts_with(num)).unwrap_or(false))
        .map(|f| f.name)
        .collect()
}

pub fn run(cfg: &Config) -> i32 {
    let started = std::time::Instant::now();
    let c = Corpus::load(&cfg.verif_dir);
    let contents = corpus::field_contents(&c);
    let pool = mutate::pool_from(&contents);
    let mut cases: Vec<(String, Case)> = Vec::new();
    let mut r = Rng::new(cfg.seed, "c02-build", 0);
    let n = c.entries.len();
    let per_type_mut = cfg.tier.pick(20usize, 20usize);
    let mut taken: std::collections::HashMap<String, usize> = Default::default();
    for k in 0..n {
        let e = &c.entries[(k + (cfg.seed as usize * 7919) % n) % n];
        cases.push(("full/corpus".into(), Case::Full { text: e.text.clone() }));
        cases.push(("full/lf-to-crlf".into(), Case::Full { text: e.text.replace("\r\n", "\n").replace('\n', "\r\n") }));
        let Some(b4) = corpus::block4_of(&e.text) else { continue };
        let toks = tok::tokenize(&b4);
        for (crlf, term) in [(false, false), (true, false), (false, true), (true, true)] {
            cases.push((
                format!("block4/corpus:crlf={crlf}:term={term}"),
                Case::Block4 {
                    mt: e.mt.clone(),
                    text: tok::render(&toks.fields, crlf, term),
                },
            ));
        }
        let t = taken.entry(e.mt.clone()).or_insert(0);
        if *t >= per_type_mut {
            continue;
        }
        *t += 1;
        for m in mutate::single_mutations(&toks.fields, &pool, &mut r, true) {
            cases.push((
                format!("block4/mut:{}", m.kind),
                Case::Block4 {
                    mt: e.mt.clone(),
                    text: tok::render(&m.fields, false, false),
                },
            ));
        }
        // per-field spelling tweaks inside the message
        for (fi, f) in toks.fields.iter().enumerate() {
            for (lab, nc) in tweaks(&f.content) {
                let mut fs = toks.fields.clone();
                fs[fi].content = nc;
                cases.push((
                    format!("block4/tweak:{lab}"),
                    Case::Block4 {
                        mt: e.mt.clone(),
                        text: tok::render(&fs, false, false),
                    },
                ));
            }
        }
    }
    // envelopes built from every documented header component (all singles and pairs of the 13
    // block-3 tags, all 8 block-5 tags, input headers of 17/18/21 and output headers of 46/47
    // characters, 8- and 11-character BICs) around corpus bodies
    {
        let bodies: Vec<(String, String)> = {
            let mut seen = std::collections::BTreeSet::new();
            c.entries
                .iter()
                .filter(|e| seen.insert(e.mt.clone()))
                .filter_map(|e| corpus::block4_of(&e.text).map(|b| (e.mt.clone(), tok::render(&tok::tokenize(&b).fields, false, false))))
                .collect()
        };
        let mut k = cfg.seed as usize;
        let tags = super::c10::B3_TAGS;
        let mut sets: Vec<Vec<&str>> = vec![tags.to_vec()];
        for i in 0..tags.len() {
            sets.push(vec![tags[i]]);
            for j in i + 1..tags.len() {
                sets.push(vec![tags[i], tags[j]]);
            }
        }
        for set in sets {
            for variant in 0..3 {
                k += 1;
                let (mt, b4) = &bodies[k % bodies.len()];
                let b3: String = set.iter().map(|t| format!("{{{t}:{}}}", super::c10::b3_value(t, k))).collect();
                let b5: String = super::c10::B5_TAGS.iter().filter(|_| k % 3 != 0).take(1 + k % 8).map(|t| format!("{{{t}:{}}}", super::c10::b5_value(t, k))).collect();
                let b2 = match variant {
                    0 => super::c10::block2_input(mt, k, [17, 18, 21][(k / 3) % 3]),
                    1 => super::c10::block2_output(mt, k, 46),
                    _ => super::c10::block2_output(mt, k, 47),
                };
                let text = format!("{{1:{}}}{{2:{b2}}}{{3:{b3}}}{{4:\n{b4}\n-}}{}", super::c10::block1(k, k % 2 == 0), if b5.is_empty() { String::new() } else { format!("{{5:{b5}}}") });
                cases.push(("full/generated-envelope".into(), Case::Full { text }));
            }
        }
    }
    // generated bases (independent layout table): the maximal message and one message per documented
    // option of every type, independent of the seed, plus seeded random shapes; each also with its
    // single mutations (whatever is accepted must be stable)
    {
        use crate::spec::layout::{self, Gen, GenOptions};
        use crate::spec::{self, Canon};
        for lay in &layout::layouts() {
            let mut shapes: Vec<(u64, u64, GenOptions, Option<(String, String)>)> = Vec::new();
            shapes.push((0, 0, GenOptions { optional_per_mille: 1000, max_repeat: 2, max_seq: 2, maximal: true, minimal: false }, None));
            for (k, (num, opt)) in layout::option_pairs(lay).into_iter().enumerate() {
                shapes.push((0, 1 + k as u64, GenOptions { optional_per_mille: 1000, max_repeat: 1, max_seq: 1, maximal: true, minimal: false }, Some((num, opt))));
            }
            for vi in 0..cfg.tier.pick(3u64, 30u64) {
                shapes.push((cfg.seed, 100 + vi, GenOptions { optional_per_mille: [500, 800, 250][(vi % 3) as usize], max_repeat: 2, max_seq: [1, 2, 4][(vi % 3) as usize], maximal: false, minimal: false }, None));
            }
            for (sd, vi, opt, force) in shapes {
                let mut rr = Rng::new(sd, &format!("c02-gen:{}", lay.mt), vi);
                let force_include = force.as_ref().map(|f| f.0.clone());
                let mut g = Gen { r: &mut rr, counter: vi as usize * 60, mt: lay.mt, opt, force_option: force, force_include };
                let gf = g.message(lay);
                let mut base: Vec<tok::Token> = Vec::new();
                let mut ok = true;
                for f in &gf {
                    match spec::canonical(&f.tag, &f.content) {
                        Canon::Ok(c) => base.push(tok::Token { tag: f.tag.clone(), content: c }),
                        _ => ok = false,
                    }
                }
                if !ok {
                    continue;
                }
                if lay.mt == "204" && base.len() >= 2 && base[1].tag == "19" {
                    base.swap(0, 1);
                }
                cases.push(("block4/generated".into(), Case::Block4 { mt: lay.mt.to_string(), text: tok::render(&base, false, false) }));
                // the same message as it arrives from the network: CRLF line ends (inside multi-line values too)
                cases.push(("block4/generated-crlf".into(), Case::Block4 { mt: lay.mt.to_string(), text: tok::render(&base, true, false) }));
                cases.push(("full/generated-crlf".into(), Case::Full { text: format!("{{1:{}}}{{2:{}}}{{4:\r\n{}\r\n-}}", super::c10::block1(vi as usize, false), super::c10::block2_input(lay.mt, vi as usize, 17), tok::render(&base, true, false)) }));
                let mut r2 = Rng::new(sd, &format!("c02-gen-mut:{}", lay.mt), vi);
                for m in mutate::single_mutations(&base, &pool, &mut r2, false) {
                    cases.push((format!("block4/generated-mutant:{}", m.kind), Case::Block4 { mt: lay.mt.to_string(), text: tok::render(&m.fields, false, false) }));
                }
            }
        }
    }
    // sparse envelopes: a block 3 / block 5 that is present but empty, or carries a single tag only
    // (present-but-empty and absent are different parse results and must stay apart over a round trip)
    {
        let bodies: Vec<(String, String)> = {
            let mut seen = std::collections::BTreeSet::new();
            c.entries
                .iter()
                .filter(|e| seen.insert(e.mt.clone()))
                .filter_map(|e| corpus::block4_of(&e.text).map(|b| (e.mt.clone(), tok::render(&tok::tokenize(&b).fields, false, false))))
                .collect()
        };
        let mut k = 0usize;
        let mut b3s: Vec<String> = vec![String::new(), "{3:}".into(), "{3:{999:UNKNOWN}}".into()];
        for t in super::c10::B3_TAGS {
            b3s.push(format!("{{3:{{{t}:{}}}}}", super::c10::b3_value(t, 5)));
        }
        let mut b5s: Vec<String> = vec![String::new(), "{5:}".into(), "{5:{ZZZ:UNKNOWN}}".into()];
        for t in super::c10::B5_TAGS {
            b5s.push(format!("{{5:{{{t}:{}}}}}", super::c10::b5_value(t, 5)));
        }
        // values as received need not be in the spelling the library itself would write
        b5s.push("{5:{CHK:1a2b3c4d5e6f}}".into());
        b5s.push("{5:{MAC:0a1b2c3d}{CHK:123456789abc}}".into());
        b5s.push("{5:{MAC:0A1B2C3D}{CHK:123456789ABC}}".into());
        b5s.push("{5:{CHK:123456789ABC}{TNG:}}".into());
        for b3 in &b3s {
            for b5 in &b5s {
                k += 1;
                let (mt, b4) = &bodies[k % bodies.len()];
                let text = format!("{{1:{}}}{{2:{}}}{b3}{{4:\n{b4}\n-}}{b5}", super::c10::block1(k, false), super::c10::block2_input(mt, k, 17));
                cases.push(("full/sparse-envelope".into(), Case::Full { text }));
            }
        }
    }
    // field level: every corpus content and its tweaks through every type sharing the tag number
    let stride = 1;
    for (i, (tag, content)) in contents.iter().enumerate() {
        let tys = field_types_for_tag(tag);
        let letter = tag.get(2..3).map(|s| s.to_string());
        let mut variants: Vec<(String, String)> = vec![("orig".into(), content.clone())];
        if i % stride == 0 {
            for (lab, t) in tweaks(content) {
                variants.push((lab.to_string(), t));
            }
            let nn = g::char_len(content);
            for _ in 0..cfg.tier.pick(4, 40) {
                if nn > 0 {
                    let ch = *r.pick(&['A', 'Z', '0', '9', '/', ',', ' ', 'a', '-', ':', '.', '+']);
                    variants.push(("subst-ascii".into(), g::subst_char(content, r.below(nn), ch)));
                    variants.push(("del-char".into(), g::delete_char(content, r.below(nn))));
                    variants.push(("ins-ascii".into(), g::insert_char(content, r.below(nn + 1), ch)));
                }
            }
        }
        for (lab, inp) in variants {
            for ty in &tys {
                cases.push((
                    format!("field/{lab}"),
                    Case::Field {
                        ty: ty.to_string(),
                        input: inp.clone(),
                        variant: None,
                    },
                ));
                if let Some(lt) = &letter {
                    cases.push((
                        format!("field-variant/{lab}"),
                        Case::Field {
                            ty: ty.to_string(),
                            input: inp.clone(),
                            variant: Some(lt.clone()),
                        },
                    ));
                }
            }
        }
    }
    // field level: the spec-derived candidates of C05 (boundary lengths, leading zeros, every character
    // class at first / middle / last position, minimal / maximal shapes) — whatever the parser accepts
    // must survive serialise-parse-serialise unchanged
    {
        let specs = crate::spec::fieldfmt::specs();
        for spec in &specs {
            for round in 0..cfg.tier.pick(1usize, 4usize) {
                let mut rr = Rng::new(cfg.seed, &format!("c02-spec:{}", spec.ty), round as u64);
                for c in crate::spec::fieldfmt::candidates(spec, round * 3 + cfg.seed as usize, &mut rr, 0) {
                    // carriage returns reach a field parser only through the message parser, which
                    // normalises them first (covered by the block4 crlf=true cases); the field-level
                    // treatment of a raw CR is not settled by the documentation
                    if c.content.contains('\r') {
                        continue;
                    }
                    cases.push(("field/spec-candidate".into(), Case::Field { ty: spec.ty.to_string(), input: c.content, variant: None }));
                }
            }
        }
    }
    let _ = MESSAGES;
    let ncases = cases.len() as u64;
    let total = par_for(cfg, ncases, |i, l| {
        let (lab, case) = &cases[i as usize];
        if l.want_sample(lab) {
            l.sample(lab, json!({"label": lab, "case": case}));
        }
        judge(cfg, case, l, lab);
    });
    let mut rep = Report::default();
    rep.rule = "cases = corpus messages (full and block 4, LF/CRLF, with/without terminator), all single structural mutations and per-field spelling tweaks of them, and every corpus field content with spelling tweaks and ASCII edits through every field type sharing its tag number (with and without the option letter). Non-trivial = the library accepted the input, so the round trip was executed; distinct = distinct (type, input) digests among accepted inputs".into();
    rep.assumptions = vec![
        "equality of parses is judged on Debug rendering and serde_json::Value (and on re-serialisation)".into(),
        "only inputs the workload produces are covered".into(),
    ];
    rep.required_strata = vec!["full/corpus".into(), "field/orig".into(), "block4/mut:duplicate".into()];
    rep.min_evals = 1000;
    finish(cfg, started, total, rep)
}

pub fn replay(cfg: &Config, case: &Value) -> Local {
    let mut l = Local::default();
    let c: Case = serde_json::from_value(case.clone()).expect("C02 case");
    judge(cfg, &c, &mut l, "replay");
    l
}
