//! C11 — Dates and times: calendar-valid only, one meaning everywhere, round-trip stable.
//!
//! Exhaustive in both tiers: all 1,000,000 six-digit strings through every date-bearing field
//! (embedded in an otherwise valid template), all 10,000 HHMM strings and all signed offsets
//! through 13C / 13D, plus non-digit classes at each position. Oracles:
//!   * from-scratch Gregorian calendar (no chrono): accepted <=> real date / clock time,
//!   * agreement: the same six digits denote the same date in every field type (read from the
//!     ISO date leaf of each field's JSON) — no pivot convention is assumed,
//!   * serialisation reproduces the digits; from_value(to_value(v)) == v.
//! Key: `C11|<FieldType>|<clause>|<class>`.

use crate::monitor::*;
use crate::registry::field;
use crate::rng::hash_str;
use serde::{Deserialize, Serialize};
use serde_json::{Value, json};

#[derive(Clone, Debug, Serialize, Deserialize)]
pub enum Case {
    /// six characters placed in the date slot of every date-bearing field
    Date { digits: String },
    /// four characters in the time slot of 13C / 13D
    Time { digits: String },
    /// sign + four characters in the offset slot of 13C / 13D
    Offset { text: String },
    /// a generated valid message of type `mt` whose field `tag` (occurrence `occ`) carries `digits` in its date slot
    MessageDate { mt: String, tag: String, occ: usize, digits: String, text: String },
}

/// (field type, prefix, suffix): content = prefix + digits + suffix
const DATE_FIELDS: &[(&str, &str, &str)] = &[
    ("Field11", "103", ""),
    ("Field11R", "103", ""),
    ("Field11S", "103", "0123456789"),
    ("Field13D", "", "1200+0100"),
    ("Field30", "", ""),
    ("Field32A", "", "USD1,00"),
    ("Field32C", "", "USD1,00"),
    ("Field32D", "", "USD1,00"),
    ("Field60F", "C", "USD1,00"),
    ("Field60M", "D", "USD1,00"),
    ("Field61", "", "C1,00NTRFREF"),
    ("Field62F", "C", "USD1,00"),
    ("Field62M", "D", "USD1,00"),
    ("Field64", "C", "USD1,00"),
    ("Field65", "D", "USD1,00"),
];

fn leap(y: u32) -> bool {
    (y % 4 == 0 && y % 100 != 0) || y % 400 == 0
}
fn days_in_month(y: u32, m: u32) -> u32 {
    match m {
        1 | 3 | 5 | 7 | 8 | 10 | 12 => 31,
        4 | 6 | 9 | 11 => 30,
        2 => {
            if leap(y) {
                29
            } else {
                28
            }
        }
        _ => 0,
    }
}
/// validity of YYMMDD under a given century; None if not six ASCII digits
fn valid_ymd(d: &str, century: u32) -> Option<bool> {
    if d.len() != 6 || !d.bytes().all(|b| b.is_ascii_digit()) {
        return None;
    }
    let yy: u32 = d[0..2].parse().ok()?;
    let mm: u32 = d[2..4].parse().ok()?;
    let dd: u32 = d[4..6].parse().ok()?;
    Some(mm >= 1 && mm <= 12 && dd >= 1 && dd <= days_in_month(century + yy, mm))
}

/// for the message-level stage (dates chosen so that validity does not depend on the century)
fn is_calendar_date(d: &str) -> bool {
    let century = if d.get(0..2).and_then(|y| y.parse::<u32>().ok()).unwrap_or(0) >= 50 { 1900 } else { 2000 };
    valid_ymd(d, century) == Some(true)
}

fn class_of_date(d: &str) -> &'static str {
    if d.len() != 6 {
        return "not-six-characters";
    }
    if !d.bytes().all(|b| b.is_ascii_digit()) {
        return "non-digit";
    }
    let yy: u32 = d[0..2].parse().unwrap_or(0);
    let mm: u32 = d[2..4].parse().unwrap_or(0);
    let dd: u32 = d[4..6].parse().unwrap_or(0);
    if mm == 0 || mm > 12 {
        "month-out-of-range"
    } else if dd == 0 || dd > 31 {
        "day-out-of-range"
    } else if mm == 2 && dd == 29 {
        "feb-29"
    } else if dd > days_in_month(2001, mm) {
        "day-beyond-month"
    } else if yy >= 50 {
        "yy>=50"
    } else {
        "yy<50"
    }
}

fn iso_leaf(j: &Value) -> Option<String> {
    match j {
        Value::String(s) => {
            let b = s.as_bytes();
            if b.len() == 10 && b[4] == b'-' && b[7] == b'-' {
                Some(s.clone())
            } else {
                None
            }
        }
        Value::Object(m) => m.values().find_map(iso_leaf),
        Value::Array(a) => a.iter().find_map(iso_leaf),
        _ => None,
    }
}

fn v(l: &mut Local, ty: &str, clause: &str, class: &str, what: String, case: &Case) {
    l.violation(format!("C11|{ty}|{clause}|{class}"), what, || serde_json::to_value(case).unwrap());
}

pub fn judge(case: &Case, l: &mut Local) {
    match case {
        Case::MessageDate { mt, tag, occ, digits, text } => {
            let ops = crate::registry::msg(mt).unwrap();
            let stratum = format!("message-date:MT{mt}");
            let valid = is_calendar_date(digits);
            match guard(|| (ops.parse_b4)(text)) {
                Err(_) => l.eval(&stratum, "panic(C07)", false, 0),
                Ok(Ok(_)) => {
                    l.eval(&stratum, "accepted", true, hash_str(text));
                    if !valid {
                        l.violation(
                            format!("C11|MT{mt}:{tag}|message-accepts-non-date|{}", class_of_date(digits)),
                            format!("MT{mt}: a message whose field {tag} (occurrence {occ}) carries the non-date {digits} is accepted"),
                            || serde_json::to_value(case).unwrap(),
                        );
                    }
                }
                Ok(Err(e)) => {
                    l.eval(&stratum, "rejected", true, hash_str(text));
                    if valid {
                        l.violation(
                            format!("C11|MT{mt}:{tag}|message-rejects-real-date|{}", class_of_date(digits)),
                            format!("MT{mt}: a valid message whose field {tag} carries the real date {digits} is rejected: {}", e.to_string().chars().take(90).collect::<String>()),
                            || serde_json::to_value(case).unwrap(),
                        );
                    }
                }
            }
        }
        Case::Date { digits } => {
            let class = class_of_date(digits);
            let v19 = valid_ymd(digits, 1900);
            let v20 = valid_ymd(digits, 2000);
            let mut meanings: Vec<(&str, String)> = Vec::new();
            for (ty, pre, suf) in DATE_FIELDS {
                // Field11 / 11R / 11S take whatever follows the six digits as the start of their optional
                // session part (a listed C05 leniency), so a longer spelling does not stay in the date slot
                if digits.len() != 6 && ty.starts_with("Field11") {
                    continue;
                }
                let ops = field(ty).unwrap();
                let content = format!("{pre}{digits}{suf}");
                let r = guard(|| (ops.parse)(&content));
                let Ok(r) = r else {
                    l.eval(&format!("date:{ty}"), "panic(C07)", false, 0);
                    continue;
                };
                match r {
                    Ok(val) => {
                        l.eval(&format!("date:{ty}"), "accepted", true, hash_str(&content) ^ hash_str(ty));
                        let j = val.json().unwrap_or(Value::Null);
                        let iso = iso_leaf(&j);
                        // which century did the library choose?
                        let ok = match (&iso, v19, v20) {
                            (_, None, _) | (_, _, None) => false,
                            (Some(i), Some(a), Some(b)) => {
                                if i.starts_with("19") {
                                    a
                                } else {
                                    b
                                }
                            }
                            (None, Some(a), Some(b)) => a || b,
                        };
                        if !ok {
                            v(l, ty, "accepts-non-date", class, format!("{ty} accepts {digits:?} in its date slot, which is not a calendar date ({class})"), case);
                        }
                        if let Some(i) = &iso {
                            // the ISO date must carry the digits read
                            if i.len() == 10 && format!("{}{}{}", &i[2..4], &i[5..7], &i[8..10]) != *digits && digits.bytes().all(|b| b.is_ascii_digit()) {
                                v(l, ty, "date-value-differs-from-digits", class, format!("{ty} reads {digits} as {i}"), case);
                            }
                            meanings.push((ty, i.clone()));
                        }
                        if let Ok(s) = guard(|| val.to_swift()) {
                            let body = s.splitn(3, ':').nth(2).unwrap_or("").to_string();
                            if !body.starts_with(&format!("{pre}{digits}")) {
                                v(l, ty, "digits-not-reproduced", class, format!("{ty} parsed from {content:?} serialises to {body:?}"), case);
                            }
                        }
                        if let Ok(Ok(v2)) = guard(|| (ops.from_json)(&j)) {
                            if v2.dbg() != val.dbg() {
                                v(l, ty, "json-changes-date", class, format!("{ty}: from_value(to_value(v)) differs from v for digits {digits} ({class})"), case);
                            }
                        } else {
                            v(l, ty, "json-not-readable", class, format!("{ty}: its own JSON for digits {digits} cannot be read back"), case);
                        }
                    }
                    Err(_) => {
                        l.eval(&format!("date:{ty}"), "rejected", true, hash_str(&content) ^ hash_str(ty));
                        if v19 == Some(true) && v20 == Some(true) {
                            v(l, ty, "rejects-real-date", class, format!("{ty} rejects {digits:?}, a real calendar date in either century ({class})"), case);
                        } else if v19 == Some(true) || v20 == Some(true) {
                            // a real date in one century only: which century the text route means is not documented,
                            // but the library must be able to read what it writes itself. Build the value over the
                            // JSON route (ISO date of the century in which the digits are a date); if the library
                            // holds that date and writes exactly these digits for it, rejecting them is a violation
                            let cent = if v20 == Some(true) { "20" } else { "19" };
                            let iso = format!("{cent}{}-{}-{}", &digits[0..2], &digits[2..4], &digits[4..6]);
                            fn set_iso(j: &mut Value, iso: &str) -> bool {
                                match j {
                                    Value::String(s) => {
                                        let b = s.as_bytes();
                                        if b.len() == 10 && b[4] == b'-' && b[7] == b'-' {
                                            *s = iso.to_string();
                                            true
                                        } else {
                                            false
                                        }
                                    }
                                    Value::Object(m) => m.values_mut().any(|x| set_iso(x, iso)),
                                    Value::Array(a) => a.iter_mut().any(|x| set_iso(x, iso)),
                                    _ => false,
                                }
                            }
                            if let Ok(Ok(t)) = guard(|| (ops.parse)(&format!("{pre}240115{suf}")))
                                && let Ok(mut j) = t.json()
                                && set_iso(&mut j, &iso)
                                && let Ok(Ok(held)) = guard(|| (ops.from_json)(&j))
                                && let Ok(sw) = guard(|| held.to_swift())
                                && sw.splitn(3, ':').nth(2).unwrap_or("").starts_with(&format!("{pre}{digits}"))
                            {
                                v(l, ty, "writes-a-date-it-cannot-read", class, format!("{ty}: the date {iso}, taken from JSON, is written as {digits}, which the same field rejects as text"), case);
                            }
                        }
                    }
                }
            }
            // one meaning everywhere
            if let Some((t0, m0)) = meanings.first() {
                for (t, m) in &meanings[1..] {
                    if m != m0 {
                        v(l, t, "meaning-disagrees", class, format!("digits {digits} mean {m} in {t} but {m0} in {t0}"), case);
                    }
                }
            }
        }
        Case::Time { digits } => {
            let valid = digits.len() == 4 && digits.bytes().all(|b| b.is_ascii_digit()) && digits[0..2].parse::<u32>().unwrap() < 24 && digits[2..4].parse::<u32>().unwrap() < 60;
            let class = if !digits.bytes().all(|b| b.is_ascii_digit()) {
                "non-digit"
            } else if valid {
                "valid"
            } else if digits[0..2].parse::<u32>().unwrap() >= 24 {
                "hour>=24"
            } else {
                "minute>=60"
            };
            for (ty, content) in [("Field13C", format!("/SNDTIME/{digits}+0100")), ("Field13D", format!("250101{digits}+0100"))] {
                let ops = field(ty).unwrap();
                let Ok(r) = guard(|| (ops.parse)(&content)) else { continue };
                match r {
                    Ok(val) => {
                        l.eval(&format!("time:{ty}"), "accepted", true, hash_str(&content));
                        if !valid {
                            v(l, ty, "accepts-non-time", class, format!("{ty} accepts {digits:?} as a clock time ({class})"), case);
                        }
                        if let Ok(s) = guard(|| val.to_swift())
                            && !s.contains(digits.as_str())
                        {
                            v(l, ty, "time-not-reproduced", class, format!("{ty} parsed from {content:?} serialises to {s:?}"), case);
                        }
                        let j = val.json().unwrap_or(Value::Null);
                        match guard(|| (ops.from_json)(&j)) {
                            Ok(Ok(v2)) if v2.dbg() == val.dbg() => {}
                            _ => v(l, ty, "json-changes-time", class, format!("{ty}: JSON round trip changes or loses time {digits}"), case),
                        }
                    }
                    Err(_) => {
                        l.eval(&format!("time:{ty}"), "rejected", true, hash_str(&content));
                        if valid {
                            v(l, ty, "rejects-real-time", class, format!("{ty} rejects the clock time {digits}"), case);
                        }
                    }
                }
            }
        }
        Case::Offset { text } => {
            let sign = text.chars().next().unwrap_or('?');
            let d = &text[sign.len_utf8()..];
            let digits_ok = d.len() == 4 && d.bytes().all(|b| b.is_ascii_digit());
            let (hh, mm) = if digits_ok { (d[0..2].parse::<u32>().unwrap(), d[2..4].parse::<u32>().unwrap()) } else { (99, 99) };
            // MUST_ACCEPT: sign in {+,-}, HH <= 14, MM <= 59 (documented "up to 14 hours"); MUST_REJECT: other sign,
            // non-digits, MM >= 60, HH >= 24; HH 15..23 is not settled by the documentation
            let must_accept = (sign == '+' || sign == '-') && digits_ok && hh <= 14 && mm <= 59;
            let must_reject = !(sign == '+' || sign == '-') || !digits_ok || mm >= 60 || hh >= 24;
            let class = if !(sign == '+' || sign == '-') {
                "sign-char"
            } else if !digits_ok {
                "non-digit"
            } else if mm >= 60 {
                "minute>=60"
            } else if hh >= 24 {
                "hour>=24"
            } else if hh > 14 {
                "hour-15..23"
            } else {
                "valid"
            };
            for (ty, content) in [("Field13C", format!("/SNDTIME/1200{text}")), ("Field13D", format!("2501011200{text}"))] {
                let ops = field(ty).unwrap();
                let Ok(r) = guard(|| (ops.parse)(&content)) else { continue };
                match r {
                    Ok(val) => {
                        l.eval(&format!("offset:{ty}"), "accepted", true, hash_str(&content));
                        if must_reject {
                            v(l, ty, "accepts-non-offset", class, format!("{ty} accepts {text:?} as a UTC offset ({class})"), case);
                        }
                        if let Ok(s) = guard(|| val.to_swift())
                            && !s.ends_with(text.as_str())
                        {
                            v(l, ty, "offset-not-reproduced", class, format!("{ty} parsed from {content:?} serialises to {s:?}"), case);
                        }
                    }
                    Err(_) => {
                        l.eval(&format!("offset:{ty}"), "rejected", true, hash_str(&content));
                        if must_accept {
                            v(l, ty, "rejects-real-offset", class, format!("{ty} rejects the UTC offset {text}"), case);
                        }
                    }
                }
            }
        }
    }
}

pub fn run(cfg: &Config) -> i32 {
    let started = std::time::Instant::now();
    let hostile = ['+', '-', ' ', 'A', '.', '٣', '３', 'é'];
    // 1e6 dates + non-digit classes at each of the 6 positions + 1e4 times (+ classes) + 2*1e4 offsets (+ classes)
    let n_dates = 1_000_000u64;
    let n_date_hostile = (6 * hostile.len()) as u64 * 4;
    let n_times = 10_000u64;
    let n_time_hostile = (4 * hostile.len()) as u64;
    let n_offsets = 20_000u64;
    let n_offset_hostile = (5 * hostile.len()) as u64;
    let total_n = n_dates + n_date_hostile + n_times + n_time_hostile + n_offsets + n_offset_hostile;
    let bases = ["250615", "991231", "000229", "500101"];
    // other spellings of a date than the six digits of the format
    let other_spellings = ["20250615", "19240719", "2025-06-15", "15062025", "25615", "2506150", "250615 ", " 250615"];
    let total = par_for(cfg, total_n, |i, l| {
        let case = if i < n_dates {
            Case::Date { digits: format!("{i:06}") }
        } else if i < n_dates + n_date_hostile {
            let k = (i - n_dates) as usize;
            let base = bases[k % 4];
            let pos = (k / 4) % 6;
            let ch = hostile[(k / 24) % hostile.len()];
            Case::Date { digits: crate::gen_::subst_char(base, pos, ch) }
        } else if i < n_dates + n_date_hostile + n_times {
            Case::Time { digits: format!("{:04}", i - n_dates - n_date_hostile) }
        } else if i < n_dates + n_date_hostile + n_times + n_time_hostile {
            let k = (i - n_dates - n_date_hostile - n_times) as usize;
            Case::Time { digits: crate::gen_::subst_char("1230", k % 4, hostile[(k / 4) % hostile.len()]) }
        } else if i < n_dates + n_date_hostile + n_times + n_time_hostile + n_offsets {
            let k = i - n_dates - n_date_hostile - n_times - n_time_hostile;
            Case::Offset { text: format!("{}{:04}", if k < 10_000 { '+' } else { '-' }, k % 10_000) }
        } else {
            let k = (i - n_dates - n_date_hostile - n_times - n_time_hostile - n_offsets) as usize;
            Case::Offset { text: crate::gen_::subst_char("+0130", k % 5, hostile[(k / 5) % hostile.len()]) }
        };
        let lab = match &case {
            Case::Date { digits } => format!("date/{}", class_of_date(digits)),
            Case::Time { .. } => "time".to_string(),
            Case::Offset { .. } => "offset".to_string(),
            Case::MessageDate { .. } => "message-date".to_string(),
        };
        if l.want_sample(&lab) {
            l.sample(&lab, json!({"case": case}));
        }
        judge(&case, l);
    });
    let mut total = total;
    {
        let extra: Vec<Case> = other_spellings.iter().map(|d| Case::Date { digits: d.to_string() }).collect();
        let t1 = par_for(cfg, extra.len() as u64, |i, l| judge(&extra[i as usize], l));
        total.merge(t1);
    }
    // message level: the date slot of every date-bearing field occurrence of a generated maximal message
    // of each type gets non-dates and real dates (a parser that drops a field it cannot read accepts the non-date)
    {
        use crate::spec::layout::{self, Gen, GenOptions};
        use crate::spec::{self, Canon};
        use crate::tok::{self, Token};
        let mut mcases: Vec<Case> = Vec::new();
        for lay in &layout::layouts() {
            for vi in 0..2u64 {
                let mut r0 = crate::rng::Rng::new(0, &format!("c11-msg:{}", lay.mt), vi);
                let mut g0 = Gen { r: &mut r0, counter: 5 + vi as usize * 50, mt: lay.mt, opt: GenOptions { optional_per_mille: 1000, max_repeat: 3, max_seq: 2, maximal: vi == 0, minimal: false }, force_option: None, force_include: None };
                let gf = g0.message(lay);
                let mut toks: Vec<Token> = Vec::new();
                let mut ok = true;
                for f in &gf {
                    match spec::canonical(&f.tag, &f.content) {
                        Canon::Ok(c) => toks.push(Token { tag: f.tag.clone(), content: c }),
                        _ => ok = false,
                    }
                }
                if !ok {
                    continue;
                }
                if lay.mt == "204" && toks.len() >= 2 && toks[1].tag == "19" {
                    toks.swap(0, 1);
                }
                let mut seen: std::collections::BTreeMap<String, usize> = Default::default();
                for (i, t) in toks.iter().enumerate() {
                    let at = match t.tag.as_str() {
                        "11R" | "11S" => 3usize,
                        "13D" | "30" | "32A" | "32C" | "32D" | "61" => 0,
                        "60F" | "60M" | "62F" | "62M" | "64" | "65" => 1,
                        _ => continue,
                    };
                    let occ = *seen.entry(t.tag.clone()).and_modify(|x| *x += 1).or_insert(0);
                    if t.content.len() < at + 6 || !t.content.is_char_boundary(at) || !t.content.is_char_boundary(at + 6) {
                        continue;
                    }
                    for d in ["250230", "251301", "250100", "250132", "250631", "230229", "240229", "250615", "991231", "000101"] {
                        let mut fs = toks.clone();
                        fs[i].content = format!("{}{}{}", &t.content[..at], d, &t.content[at + 6..]);
                        mcases.push(Case::MessageDate { mt: lay.mt.to_string(), tag: t.tag.clone(), occ, digits: d.to_string(), text: tok::render(&fs, false, false) });
                    }
                }
            }
        }
        let t2 = par_for(cfg, mcases.len() as u64, |i, l| judge(&mcases[i as usize], l));
        total.merge(t2);
    }
    let mut rep = Report::default();
    rep.exhaustive = true;
    rep.rule = "exhaustive: all 1,000,000 six-digit strings through 15 date-bearing field types (11, 11R, 11S, 13D, 30, 32A/C/D, 60F/M, 61, 62F/M, 64, 65) in MT and JSON, all 10,000 HHMM strings and all 20,000 signed offsets through 13C and 13D, plus non-digit characters (signs, blank, letter, dot, non-ASCII digits) at every position; at message level the date slot of every date-bearing field occurrence (first, middle, last) of generated maximal messages of every type gets six non-dates and four real dates (accepted iff real). Non-trivial = every (field, string) pair (a field parser ran); distinct = distinct (field, content) digests".into();
    rep.assumptions = vec![
        "calendar validity from a from-scratch Gregorian model; the century is read from the library's own result, only 000229 depends on it".into(),
        "offset hours 15..23 are not judged (documentation says 'up to 14 hours' without making it a format rule)".into(),
    ];
    rep.required_strata = DATE_FIELDS.iter().map(|(t, _, _)| format!("date:{t}")).chain(["time:Field13C".to_string(), "offset:Field13D".to_string()]).collect();
    rep.min_evals = 15_000_000;
    let _ = cfg.tier;
    finish(cfg, started, total, rep)
}

pub fn replay(_cfg: &Config, case: &Value) -> Local {
    let mut l = Local::default();
    let c: Case = serde_json::from_value(case.clone()).expect("C11 case");
    judge(&c, &mut l);
    l
}
