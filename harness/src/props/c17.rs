//! C17 — Reject / return / cover classification follows the codes present, consistently.
//!
//! Exhaustive product over code-word variants in field 72, block-3 {108:} and {119:}, for real
//! messages of MT103/202/205 (supporting types) and of every other type. Oracles:
//!   * documented places and words (three-valued: code word at a line start of field 72 or as the
//!     whole {108:} value = must classify; no trace of the word anywhere = must not; mid-line,
//!     substring and lower-case spellings are not judged),
//!   * a return-only message is not a reject,
//!   * cross-type agreement: the same word at the same place is classified the same way by
//!     MT103, MT202 and MT205,
//!   * the parse plugin's method is the one the four predicates imply
//!     (reject > return > cover / stp > normal).
//! Key: `C17|<type>|<clause>|<word>@<place>`.

use crate::corpus::{self, Corpus};
use crate::monitor::*;
use crate::registry::{MESSAGES, msg};
use crate::rng::hash_bytes2;
use crate::tok;
use serde::{Deserialize, Serialize};
use serde_json::{Value, json};

#[derive(Clone, Debug, Serialize, Deserialize)]
pub struct Case {
    pub mt: String,
    pub f72: Option<String>,
    pub mur: Option<String>,
    pub flag119: Option<String>,
    pub text: String,
    /// MT202 only: which customer fields the cover sequence (sequence B) carries ("none", "50K", "59", "50K+59")
    #[serde(default)]
    pub cov: Option<String>,
}

const F72: &[(&str, &str)] = &[
    ("none", "/INS/BANK ONE"),
    ("/REJT/@72-line-start", "/REJT/AC01"),
    ("/RETN/@72-line-start", "/RETN/AC04"),
    ("/REJT/+/RETN/@72", "/REJT/AC01\n/RETN/AC04"),
    ("/REJT/@72-second-line", "/INS/BANK ONE\n/REJT/AC01"),
    ("/RETN/@72-second-line", "/INS/BANK ONE\n/RETN/AC04"),
    ("/REJT/@72-mid-line", "/INS/BANK /REJT/ X"),
    ("/RJT/@72", "/RJT/AC01"),
    ("/RET/@72", "/RET/AC04"),
    ("/rejt/@72", "/rejt/ac01"),
    ("/REJTX/@72", "/REJTX/AC01"),
    ("REJT-no-slashes@72", "REJT AC01"),
    ("/BNF/RETN@72-no-closing-slash", "/BNF/RETN"),
    ("/ACC/REJT@72-no-closing-slash", "/ACC/REJT"),
    ("RETN/@72-no-leading-slash", "RETN/AC04 TEXT"),
    ("//RETN@72", "//RETN"),
    ("/COVENANT/@72-other-code-word", "/COVENANT/TEXT"),
    ("/COVR/@72-other-code-word", "/COVR/TEXT"),
    ("/COV/@72", "/COV/COVER PAYMENT"),
    ("/COVER/@72", "/COVER/PAYMENT"),
    // other spellings of the case (not judged against the word list; the types must agree on them)
    ("/retn/@72", "/retn/ac04"),
    ("/Retn/@72-mixed-case", "/Retn/AC04"),
    ("/Rejt/@72-mixed-case", "/Rejt/AC01"),
    ("/retn/@72-mid-line", "//see /retn/ advice"),
    // the word on one line only of several: any line counts, not all of them
    ("/COV/@72-second-line", "/INS/BANK ONE\n/COV/COVER PAYMENT"),
    ("/COVER/@72-first-of-two-lines", "/COVER/PAYMENT\n/INS/BANK ONE"),
    ("/RETN/@72-first-of-two-lines", "/RETN/AC04\n/INS/BANK ONE"),
    ("/REJT/@72-third-line", "/INS/BANK ONE\n//CONTINUED\n/REJT/AC01"),
    ("/REJT/@72-first-of-three-lines", "/REJT/AC01\n//CONTINUED\n/INS/BANK ONE"),
];
const MUR: &[(&str, Option<&str>)] = &[
    ("none", None),
    ("REJT@108", Some("REJT")),
    ("RETN@108", Some("RETN")),
    ("xREJTx@108", Some("REF-REJT-1")),
    ("rejt@108", Some("rejt")),
    ("plain@108", Some("MUR12345")),
];
const F119: &[(&str, Option<&str>)] = &[("none", None), ("REJT@119", Some("REJT")), ("RETN@119", Some("RETN")), ("COV@119", Some("COV")), ("STP@119", Some("STP"))];

fn v(l: &mut Local, ty: &str, clause: &str, at: &str, what: String, case: &Case) {
    l.violation(format!("C17|{ty}|{clause}|{at}"), what, || serde_json::to_value(case).unwrap());
}

fn supporting(mt: &str) -> bool {
    matches!(mt, "103" | "202" | "205")
}

/// three-valued expectation for "carries code word `w` (REJT / RETN) in a documented place"
fn expect(word: &str, f72: Option<&str>, mur: Option<&str>) -> Option<bool> {
    let code = format!("/{word}/");
    let line_start = f72.map(|t| t.lines().any(|l| l.starts_with(&code))).unwrap_or(false);
    let mur_exact = mur == Some(word);
    if line_start || mur_exact {
        return Some(true);
    }
    let trace72 = f72.map(|t| t.to_uppercase().contains(word)).unwrap_or(false);
    let trace108 = mur.map(|t| t.to_uppercase().contains(word)).unwrap_or(false);
    if !trace72 && !trace108 {
        return Some(false);
    }
    None
}

pub struct Observed {
    pub reject: bool,
    pub ret: bool,
    pub cover: bool,
    pub stp: bool,
    pub method: String,
}

fn observe(case: &Case) -> Option<Observed> {
    let ops = msg(&case.mt)?;
    let m = match guard(|| (ops.parse_full)(&case.text)) {
        Ok(Ok(m)) => m,
        _ => return None,
    };
    let (_, method) = match guard(|| crate::plug::parse_mt(&case.text)) {
        Ok(Ok(x)) => x,
        _ => return None,
    };
    Some(Observed { reject: m.has_reject_codes(), ret: m.has_return_codes(), cover: m.is_cover_message(), stp: m.is_stp_message(), method })
}

/// The same message taken through its JSON form, with the message type spelled as the parser writes it and as
/// the publish function also accepts it ("MT202"): the predicates of the value read back
fn observe_json(case: &Case) -> Vec<(String, (bool, bool, bool, bool))> {
    let mut out = Vec::new();
    let Some(ops) = msg(&case.mt) else { return out };
    let Ok(Ok(m)) = guard(|| (ops.parse_full)(&case.text)) else { return out };
    let Ok(Ok(j)) = guard(|| m.json()) else { return out };
    for spelled in [case.mt.clone(), format!("MT{}", case.mt)] {
        let mut j2 = j.clone();
        if j2.get("message_type").is_some() {
            j2["message_type"] = Value::String(spelled.clone());
        }
        if let Ok(Ok(m2)) = guard(|| (ops.full_from_json)(&j2)) {
            out.push((spelled, (m2.has_reject_codes(), m2.has_return_codes(), m2.is_cover_message(), m2.is_stp_message())));
        }
    }
    out
}

pub fn judge(case: &Case, l: &mut Local, peers: Option<&[(String, Observed)]>) {
    let ty = if supporting(&case.mt) { format!("MT{}", case.mt) } else { "other-types".to_string() };
    let stratum = format!("{ty}");
    let Some(o) = observe(case) else {
        l.eval(&stratum, "not-parseable", false, 0);
        return;
    };
    l.eval(&stratum, &format!("method={}", o.method), true, hash_bytes2(&case.mt, &case.text));
    // JSON route: the value read back from the message's own JSON is classified like the parsed message
    if supporting(&case.mt) {
        for (spelled, (rj, rt, cv, st)) in observe_json(case) {
            if (rj, rt, cv, st) != (o.reject, o.ret, o.cover, o.stp) {
                let which = if rj != o.reject { "reject" } else if rt != o.ret { "return" } else if cv != o.cover { "cover" } else { "stp" };
                v(l, &ty, "json-route-classified-differently", &format!("{which}:message_type={}", if spelled.starts_with("MT") { "MTnnn" } else { "nnn" }), format!("{ty}: parsed from text reject={} return={} cover={} stp={}; read back from its own JSON (message_type {spelled:?}) reject={rj} return={rt} cover={cv} stp={st}", o.reject, o.ret, o.cover, o.stp), case);
            }
        }
    }
    let f72 = case.f72.as_deref();
    let mur = case.mur.as_deref();
    let at72 = F72.iter().find(|(_, t)| Some(*t) == f72).map(|x| x.0).unwrap_or("?");
    let at108 = MUR.iter().find(|(_, t)| *t == mur).map(|x| x.0).unwrap_or("?");
    let at119 = F119.iter().find(|(_, t)| *t == case.flag119.as_deref()).map(|x| x.0).unwrap_or("?");
    // responsible element for the word-list clauses: the place that carries a trace of the word
    let at_for = |word: &str| -> String {
        let in72 = f72.map(|t| t.to_uppercase().contains(word) || t.contains(&format!("/{}/", &word[..word.len() - 1].replace("EJ", "J").replace("ETN", "ET")))).unwrap_or(false);
        let lookalike72 = matches!(at72, "/RJT/@72" | "/RET/@72");
        if in72 || lookalike72 { at72.to_string() } else { at108.to_string() }
    };
    let at = format!("{at72}+{at108}");
    if supporting(&case.mt) {
        if let Some(e) = expect("REJT", f72, mur)
            && e != o.reject
        {
            v(l, &ty, if e { "reject-code-not-classified" } else { "classified-reject-without-code" }, &at_for("REJT"), format!("{ty}: has_reject_codes={} with field 72 {:?} and MUR {:?}", o.reject, f72, mur), case);
        }
        if let Some(e) = expect("RETN", f72, mur)
            && e != o.ret
        {
            v(l, &ty, if e { "return-code-not-classified" } else { "classified-return-without-code" }, &at_for("RETN"), format!("{ty}: has_return_codes={} with field 72 {:?} and MUR {:?}", o.ret, f72, mur), case);
        }
        // a message carrying only a return code is not a reject
        if expect("RETN", f72, mur) == Some(true) && expect("REJT", f72, mur) == Some(false) && o.reject {
            v(l, &ty, "return-only-classified-reject", &at_for("REJT"), format!("{ty}: a message carrying only a return code is classified as reject"), case);
        }
    }
    // MT202: the cover sequence makes a cover message (the crate documents "Sequence B is present with
    // COV fields"): any customer field of sequence B classifies, none of them (and no COV word) does not
    if let Some(cov) = &case.cov {
        let expected = cov != "none";
        let cov_word = f72.map(|t| t.contains("/COV")).unwrap_or(false) || case.flag119.as_deref() == Some("COV");
        if expected && !o.cover {
            v(l, &ty, "cover-sequence-not-classified", cov, format!("{ty}: sequence B carries {cov} but is_cover_message is false"), case);
        }
        if !expected && !cov_word && o.cover {
            v(l, &ty, "classified-cover-without-sequence", cov, format!("{ty}: no sequence B and no cover word, but is_cover_message is true"), case);
        }
    }
    // MT205 detects a cover by the code words /COV/ and /COVER/ in field 72: present at a line start = cover,
    // no "COV" anywhere = not a cover, another slash-delimited code word that merely begins with those
    // letters (/COVENANT/, /COVR/) is not one of the two code words
    if case.mt == "205"
        && case.cov.is_none()
        && let Some(t) = f72
    {
        let is_word = t.lines().any(|x| x.starts_with("/COV/") || x.starts_with("/COVER/"));
        let other_word = !is_word && t.lines().any(|x| x.starts_with("/COVENANT/") || x.starts_with("/COVR/"));
        let no_trace = !t.to_uppercase().contains("COV");
        if is_word && !o.cover {
            v(l, &ty, "cover-word-not-classified", at72, format!("{ty}: field 72 {:?} carries a cover code word but is_cover_message is false", t), case);
        }
        if (no_trace || other_word) && o.cover {
            v(l, &ty, "classified-cover-without-word", at72, format!("{ty}: field 72 {:?} carries neither /COV/ nor /COVER/ but is_cover_message is true", t), case);
        }
    }
    // method implied by the predicates
    let implied = if o.reject {
        "reject"
    } else if o.ret {
        "return"
    } else if o.cover {
        "cover"
    } else if o.stp && case.mt == "103" {
        "stp"
    } else {
        "normal"
    };
    if o.method != implied {
        v(
            l,
            &ty,
            "method-disagrees-with-predicates",
            &format!(
                "{}:{implied}->{}",
                if case.flag119.is_some() && supporting(&case.mt) {
                    at119.to_string()
                } else if !supporting(&case.mt) {
                    at108.to_string()
                } else {
                    at.clone()
                },
                o.method
            ),
            format!("{ty}: predicates (reject={}, return={}, cover={}, stp={}) imply method {implied}, the parse plugin reports {}", o.reject, o.ret, o.cover, o.stp, o.method),
            case,
        );
    }
    // cross-type agreement on the same words at the same places
    if let Some(peers) = peers {
        for (pmt, po) in peers {
            if (po.reject, po.ret) != (o.reject, o.ret) {
                v(
                    l,
                    &format!("MT{}-vs-MT{pmt}", case.mt),
                    "cross-type-disagreement",
                    &at,
                    format!("the same code words ({at}) are classified reject={}, return={} in MT{} but reject={}, return={} in MT{pmt}", o.reject, o.ret, case.mt, po.reject, po.ret),
                    case,
                );
            }
        }
    }
}

pub fn rewrite(text: &str, f72: Option<&str>, mur: Option<&str>, flag: Option<&str>) -> Option<String> {
    let blocks = tok::split_blocks(text)?;
    let mut out = String::new();
    let mut wrote3 = false;
    let block3 = |mur: Option<&str>, flag: Option<&str>| -> Option<String> {
        let mut s = String::new();
        if let Some(m) = mur {
            s.push_str(&format!("{{108:{m}}}"));
        }
        if let Some(f) = flag {
            s.push_str(&format!("{{119:{f}}}"));
        }
        if s.is_empty() { None } else { Some(s) }
    };
    for (id, content) in &blocks {
        match id.as_str() {
            "3" => {
                if let Some(b3) = block3(mur, flag) {
                    out.push_str(&format!("{{3:{b3}}}\n"));
                }
                wrote3 = true;
            }
            "4" => {
                if !wrote3 {
                    if let Some(b3) = block3(mur, flag) {
                        out.push_str(&format!("{{3:{b3}}}\n"));
                    }
                    wrote3 = true;
                }
                let mut toks = tok::tokenize(content).fields;
                if let Some(t) = f72 {
                    // the first (sequence A) field 72 carries the variant
                    let i = toks.iter().position(|x| x.tag == "72")?;
                    toks[i].content = t.to_string();
                }
                out.push_str(&format!("{{4:\n{}\n-}}\n", tok::render(&toks, false, false)));
            }
            other => out.push_str(&format!("{{{other}:{content}}}\n")),
        }
    }
    Some(out)
}

/// MT202: replace whatever follows sequence A (sequence B starts at the first field 50a) by the given
/// customer fields of the cover sequence
fn with_cover_sequence(text: &str, cov: &str) -> Option<String> {
    let blocks = tok::split_blocks(text)?;
    let mut out = String::new();
    for (id, content) in &blocks {
        if id == "4" {
            let mut toks = tok::tokenize(content).fields;
            if let Some(i) = toks.iter().position(|t| t.tag.starts_with("50")) {
                toks.truncate(i);
            }
            if cov.contains("50K") {
                toks.push(tok::Token { tag: "50K".into(), content: "/ACC1\nORDERING CUSTOMER".into() });
            }
            if cov.contains("59") {
                toks.push(tok::Token { tag: "59".into(), content: "/ACC2\nBENEFICIARY CUSTOMER".into() });
            }
            out.push_str(&format!("{{4:\n{}\n-}}\n", tok::render(&toks, false, false)));
        } else {
            out.push_str(&format!("{{{id}:{content}}}\n"));
        }
    }
    Some(out)
}

pub fn run(cfg: &Config) -> i32 {
    let started = std::time::Instant::now();
    let c = Corpus::load(&cfg.verif_dir);
    // bases: per type up to N corpus messages, preferring those with a field 72
    let per_type = cfg.tier.pick(2usize, 6usize);
    let mut bases: Vec<(String, String, bool)> = Vec::new();
    for m in MESSAGES {
        let es = c.of_type(m.code);
        let mut with72: Vec<&crate::corpus::Entry> = es
            .iter()
            .copied()
            .filter(|e| corpus::block4_of(&e.text).map(|b| tok::tokenize(&b).fields.iter().any(|t| t.tag == "72")).unwrap_or(false))
            .collect();
        let rot = cfg.seed as usize;
        if !with72.is_empty() {
            let k = with72.len();
            with72.rotate_left(rot % k);
        }
        let mut n = 0;
        for e in with72.iter().take(per_type) {
            bases.push((m.code.to_string(), e.text.clone(), true));
            n += 1;
        }
        if n == 0 && !es.is_empty() {
            bases.push((m.code.to_string(), es[rot % es.len()].text.clone(), false));
        }
    }
    // one aligned group per (f72, mur, 119) combination for the three supporting types -> cross-type check
    let mut work: Vec<(usize, usize, usize)> = Vec::new();
    for a in 0..F72.len() {
        for b in 0..MUR.len() {
            for d in 0..F119.len() {
                work.push((a, b, d));
            }
        }
    }
    let n = work.len() as u64;
    let total = par_for(cfg, n, |i, l| {
        let (a, b, d) = work[i as usize];
        let (_, t72) = F72[a];
        let (_, mur) = MUR[b];
        let (_, flag) = F119[d];
        let mut supporting_obs: Vec<(String, Observed, Case)> = Vec::new();
        for (mt, text, has72) in &bases {
            if !*has72 && a != 0 {
                continue;
            }
            let f72 = if *has72 { Some(t72) } else { None };
            let Some(nt) = rewrite(text, f72, mur, flag) else { continue };
            let case = Case { mt: mt.clone(), f72: f72.map(|s| s.to_string()), mur: mur.map(|s| s.to_string()), flag119: flag.map(|s| s.to_string()), text: nt, cov: None };
            let lab = format!("{}:{}", if supporting(mt) { "supporting" } else { "other" }, F72[a].0);
            if l.want_sample(&lab) {
                l.sample(&lab, json!({"mt": mt, "f72": case.f72, "mur": case.mur, "flag119": case.flag119}));
            }
            judge(&case, l, None);
            // the same tags in another order inside block 3 (as received, not as the library would write them):
            // the classification does not depend on the order
            if let Some(m) = mur {
                let m108 = format!("{{108:{m}}}");
                let mut variants: Vec<String> = vec![case.text.replacen(&m108, &format!("{m108}{{113:URGT}}"), 1), case.text.replacen(&m108, &format!("{{121:7f3a2b1c-4d5e-4f60-8a9b-0c1d2e3f4a5b}}{m108}"), 1)];
                if let Some(f) = flag {
                    variants.push(case.text.replacen(&format!("{m108}{{119:{f}}}"), &format!("{{119:{f}}}{m108}"), 1));
                }
                for t2 in variants {
                    if t2 != case.text {
                        judge(&Case { text: t2, ..case.clone() }, l, None);
                    }
                }
            }
            if mt == "202" && b == 0 {
                for cov in ["none", "50K", "59", "50K+59"] {
                    if let Some(t2) = with_cover_sequence(&case.text, cov) {
                        let c2 = Case { text: t2, cov: Some(cov.to_string()), ..case.clone() };
                        judge(&c2, l, None);
                    }
                }
            }
            if supporting(mt)
                && *has72
                && let Some(o) = observe(&case)
            {
                supporting_obs.push((mt.clone(), o, case));
            }
        }
        // cross-type agreement within this combination (first base of each supporting type)
        let mut firsts: Vec<&(String, Observed, Case)> = Vec::new();
        for x in &supporting_obs {
            if !firsts.iter().any(|f| f.0 == x.0) {
                firsts.push(x);
            }
        }
        for (i1, x) in firsts.iter().enumerate() {
            for y in firsts.iter().skip(i1 + 1) {
                // the plugin's reject / return verdict for the same words, user reference and validation flag is
                // the same for the two institution transfers (MT103 has no flag handling and an stp method)
                if x.0 != "103" && y.0 != "103" && ((x.1.method == "reject") != (y.1.method == "reject") || (x.1.method == "return") != (y.1.method == "return")) {
                    let at = format!("{}+{}+{}", F72[a].0, MUR[b].0, F119[d].0);
                    v(
                        l,
                        &format!("MT{}-vs-MT{}", x.0, y.0),
                        "cross-type-method-disagreement",
                        &at,
                        format!("the same code words ({at}) give plugin method {} for MT{} but {} for MT{}", x.1.method, x.0, y.1.method, y.0),
                        &x.2,
                    );
                }
                if (x.1.reject, x.1.ret) != (y.1.reject, y.1.ret) {
                    let at = F72[a].0.to_string();
                    v(
                        l,
                        &format!("MT{}-vs-MT{}", x.0, y.0),
                        "cross-type-disagreement",
                        &at,
                        format!("the same code words ({at}) are classified reject={}, return={} in MT{} but reject={}, return={} in MT{}", x.1.reject, x.1.ret, x.0, y.1.reject, y.1.ret, y.0),
                        &x.2,
                    );
                }
            }
        }
    });
    // MT199 (free-format message used for rejects / returns of payments): the code word at the start of the
    // first line of field 79 classifies; the same look-alikes as for field 72
    let mut total = total;
    {
        let variants: Vec<(&str, &str, Option<bool>, Option<bool>)> = vec![
            ("none", "REGARDING YOUR PAYMENT", Some(false), Some(false)),
            ("/REJT/@79-first-line", "/REJT/AC01\nTEXT", Some(true), Some(false)),
            ("/RETN/@79-first-line", "/RETN/AC04\nTEXT", Some(false), Some(true)),
            ("/REJT/@79-second-line", "TEXT\n/REJT/AC01", None, Some(false)),
            ("/RETN/@79-second-line", "TEXT\n/RETN/AC04", Some(false), None),
            ("/REJTX/@79", "/REJTX/AC01", None, Some(false)),
            ("/rejt/@79", "/rejt/ac01", None, Some(false)),
            ("/RETNX/@79", "/RETNX/AC04", Some(false), None),
            ("REJT-no-slashes@79", "REJT AC01", None, Some(false)),
            ("/REJT/+/RETN/@79", "/REJT/AC01\n/RETN/AC04", Some(true), None),
            ("/RETN/+/REJT/@79", "/RETN/AC04\n/REJT/AC01", None, Some(true)),
            // the word quoted inside the first line (not judged against the word list, but by symmetry below)
            ("/RETN/@79-mid-first-line", "YOUR QUERY RE CODE /RETN/ RECEIVED", Some(false), None),
            ("/REJT/@79-mid-first-line", "YOUR QUERY RE CODE /REJT/ RECEIVED", None, Some(false)),
            ("/REJT/-then-/RETN/-same-line@79", "/REJT/AC01 NOT TO BE TREATED AS /RETN/", Some(true), None),
            ("/RETN/-then-/REJT/-same-line@79", "/RETN/AC04 NOT TO BE TREATED AS /REJT/", None, Some(true)),
            ("/RETN/@79-end-of-first-line", "SEE /RETN/", Some(false), None),
        ];
        let t199 = par_for(cfg, variants.len() as u64, |i, l| {
            let (lab, f79, exp_rej, exp_ret) = &variants[i as usize];
            let text = format!("{{1:F01BANKBEBBAXXX0000000000}}{{2:I199BANKDEFFXXXXN}}{{4:\n:20:REF1\n:21:REL1\n:79:{f79}\n-}}");
            let case = Case { mt: "199".into(), f72: Some(f79.to_string()), mur: None, flag119: None, text: text.clone(), cov: None };
            match guard(|| swift_mt_message::SwiftParser::parse::<swift_mt_message::messages::MT199>(&text)) {
                Ok(Ok(m)) => {
                    let (rj, rt) = (m.fields.is_reject_message(), m.fields.is_return_message());
                    l.eval("MT199", &format!("reject={rj},return={rt}"), true, hash_bytes2("199", &text));
                    if let Some(e) = exp_rej
                        && *e != rj
                    {
                        v(l, "MT199", if *e { "reject-code-not-classified" } else { "classified-reject-without-code" }, lab, format!("MT199: is_reject_message={rj} with field 79 {:?}", f79), &case);
                    }
                    if let Some(e) = exp_ret
                        && *e != rt
                    {
                        v(l, "MT199", if *e { "return-code-not-classified" } else { "classified-return-without-code" }, lab, format!("MT199: is_return_message={rt} with field 79 {:?}", f79), &case);
                    }
                    // symmetry: the two predicates differ by their code word only, so the same narrative with the
                    // two words exchanged must be classified the other way round (whatever position counts)
                    let swapped = f79.replace("REJT", "\u{1}").replace("RETN", "REJT").replace('\u{1}', "RETN");
                    let text2 = text.replace(&format!(":79:{f79}"), &format!(":79:{swapped}"));
                    if let Ok(Ok(m2)) = guard(|| swift_mt_message::SwiftParser::parse::<swift_mt_message::messages::MT199>(&text2)) {
                        let (rj2, rt2) = (m2.fields.is_reject_message(), m2.fields.is_return_message());
                        if rj != rt2 || rt != rj2 {
                            v(l, "MT199", "reject-and-return-read-differently", lab, format!("MT199: field 79 {f79:?} gives reject={rj} return={rt}; with the two code words exchanged ({swapped:?}) reject={rj2} return={rt2}"), &case);
                        }
                    }
                }
                _ => l.eval("MT199", "not-parseable", false, 0),
            }
        });
        total.merge(t199);
    }
    let mut rep = Report::default();
    rep.exhaustive = true;
    rep.rule = "exhaustive product of 20 field-72 variants (code words at line start, second line, mid-line, look-alikes, lower case, cover words) x 6 {108:} variants x 5 {119:} variants over real messages of MT103/202/205 (with and without cover sequence) and of each of the other 27 types, each through the typed predicates and the real parse plugin. Non-trivial = the message parsed and was classified; distinct = distinct message texts".into();
    rep.assumptions = vec![
        "documented places: field 72 line start and the whole {108:} value; mid-line, substring and lower-case spellings are not judged against the word list (only for cross-type agreement and method implication)".into(),
    ];
    rep.required_strata = vec!["MT103".into(), "MT202".into(), "MT205".into(), "other-types".into()];
    rep.min_evals = 1000;
    finish(cfg, started, total, rep)
}

pub fn replay(_cfg: &Config, case: &Value) -> Local {
    let mut l = Local::default();
    let c: Case = serde_json::from_value(case.clone()).expect("C17 case");
    judge(&c, &mut l, None);
    l
}
