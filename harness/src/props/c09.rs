//! C09 — Mandatory structure is enforced and the error names the culprit.
//!
//! Bases: G-valid messages from the independent layout specification that the library accepts.
//! (a) every field occurrence is deleted in turn; if the remaining tag sequence is no longer
//!     accepted by the *layout acceptor*, the occurrence was mandatory: the library must reject
//!     the text and the error must identify the missing tag and the message type (structured
//!     payload or rendered text; the marker field of a repeating sequence only has to be rejected).
//! (b) the content of every structured field occurrence is replaced by a content that is certainly
//!     outside its format: the library must reject, and the error must name that tag and carry
//!     the content.
//! Key: `C09|MT<type>|<deleted|corrupted>|<tag>|<clause>`.

use crate::monitor::*;
use crate::mutate;
use crate::rng::{Rng, hash_bytes2};
use crate::spec::layout::{self, Gen, GenOptions, Layout, Node};
use crate::spec::{self, Canon};
use crate::tok::{self, Token};
use serde::{Deserialize, Serialize};
use serde_json::{Value, json};
use swift_mt_message::errors::ParseError;

#[derive(Clone, Debug, Serialize, Deserialize)]
pub enum Case {
    Deleted { mt: String, tag: String, place: String, is_marker: bool, text: String },
    Corrupted {
        mt: String,
        tag: String,
        content: String,
        text: String,
        /// long-content class: whether the content is accepted is left to C05 / C01; only the error is judged
        #[serde(default)]
        acceptance_not_judged: bool,
    },
}

fn v(l: &mut Local, mt: &str, kind: &str, tag: &str, clause: &str, what: String, case: &Case) {
    l.violation(format!("C09|MT{mt}|{kind}|{tag}|{clause}"), what, || serde_json::to_value(case).unwrap());
}

/// tags that start a repeating sequence of the layout (their deletion re-attaches the rest of the
/// sequence elsewhere: the message must be rejected, the reported culprit is unspecified)
fn marker_tags(l: &Layout) -> Vec<String> {
    let mut out = Vec::new();
    fn rec(nodes: &[Node], out: &mut Vec<String>) {
        for n in nodes {
            if let Node::Seq { items, .. } = n {
                match items.first() {
                    Some(Node::Field(f)) => out.push(f.num.to_string()),
                    Some(Node::Alt(a)) => a.iter().for_each(|f| out.push(f.num.to_string())),
                    _ => {}
                }
                rec(items, out);
            }
        }
    }
    rec(&l.nodes, &mut out);
    out
}

fn names_tag(text: &str, tag: &str) -> bool {
    // the full tag, or its two-digit number as a token of its own
    if text.contains(tag) {
        return true;
    }
    let num = &tag[..2];
    let b = text.as_bytes();
    let mut i = 0;
    while let Some(p) = text[i..].find(num) {
        let s = i + p;
        let before = s == 0 || !b[s - 1].is_ascii_digit();
        let after = s + 2 >= b.len() || !b[s + 2].is_ascii_digit();
        if before && after {
            return true;
        }
        i = s + 1;
    }
    false
}


/// Plugin route: the parse_mt workflow function wraps the same parser; whatever the library's own error for the
/// full text identifies (tag, message type, content), the plugin's error must identify too. Relative oracle: only
/// the items found in the library error's rendering are demanded, and content is demanded only when it has no
/// character that a Debug rendering escapes.
fn plugin_route(l: &mut Local, mt: &str, kind: &str, site: &str, tag: &str, content: Option<&str>, b4: &str, case: &Case) {
    let full = format!("{{1:F01BANKBEBBAXXX0000000000}}{{2:I{mt}BANKDEFFXXXXN}}{{4:\n{b4}\n-}}");
    let e = match guard(|| swift_mt_message::SwiftParser::parse_auto(&full).map(|_| ())) {
        Ok(Err(e)) => e,
        Ok(Ok(())) => {
            // the text block was rejected by the typed parser (that is why we are here): wrapped in a valid
            // envelope the same text must not pass
            v(l, mt, kind, site, "full-route-accepts-what-the-text-block-route-rejects", format!("MT{mt}: a text block that parse_from_block4 rejects (field {tag}) is accepted by parse_auto inside a valid envelope"), case);
            return;
        }
        Err(_) => return,
    };
    let lib = format!("{}\n{}\n{}", e, e.debug_report(), format!("{e:?}"));
    // the validate_mt workflow function reports the same parse failure: not valid, and what the parser's error
    // identifies (tag; message type for a missing field) is found in its report as well
    if let Ok(Ok(pj)) = guard(|| crate::plug::validate_mt(&full)) {
        let report = pj["errors"].to_string();
        if pj["valid"].as_bool() == Some(true) {
            v(l, mt, kind, site, "validate-plugin-says-valid", format!("MT{mt}: the validate_mt plugin calls a message valid that the parser rejects (field {tag})"), case);
        } else if names_tag(&lib, tag) && !names_tag(&report, tag) {
            v(l, mt, kind, site, "validate-plugin-loses-tag", format!("MT{mt}: the validate_mt plugin's report for field {tag} does not name it although the parser's own error does: {}", report.chars().take(120).collect::<String>()), case);
        } else if kind == "deleted" && lib.contains(mt) && !report.contains(mt) {
            v(l, mt, kind, site, "validate-plugin-loses-message-type", format!("MT{mt}: the validate_mt plugin's report for missing field {tag} does not name the message type although the parser's own error does: {}", report.chars().take(120).collect::<String>()), case);
        }
    }
    let Ok(Err(pe)) = guard(|| crate::plug::parse_mt(&full).map(|_| ())) else {
        l.eval(&format!("MT{mt}/plugin-route"), "plugin-accepted-or-panicked(not judged here)", false, 0);
        return;
    };
    l.eval(&format!("MT{mt}/plugin-route"), "plugin-rejected", true, hash_bytes2(mt, &full));
    if names_tag(&lib, tag) && !names_tag(&pe, tag) {
        v(l, mt, kind, site, "plugin-loses-tag", format!("MT{mt}: the parse_mt plugin's error for field {tag} does not name it although the parser's own error does: {}", pe.chars().take(100).collect::<String>()), case);
    } else if kind == "deleted" && lib.contains(mt) && !pe.contains(mt) {
        v(l, mt, kind, site, "plugin-loses-message-type", format!("MT{mt}: the parse_mt plugin's error for missing field {tag} does not name the message type although the parser's own error does"), case);
    } else if let Some(c) = content
        && !c.is_empty()
        && c.chars().all(|ch| ch.is_ascii_graphic() && ch != '"' && ch != '\\' && ch != '\'' || ch == ' ')
        && lib.contains(c)
        && !pe.contains(c)
    {
        v(l, mt, kind, site, "plugin-loses-content", format!("MT{mt}: the parse_mt plugin's error for invalid field {tag} does not carry its content although the parser's own error does: {}", pe.chars().take(100).collect::<String>()), case);
    }
}

pub fn judge(_cfg: &Config, case: &Case, l: &mut Local, stratum: &str) {
    match case {
        Case::Deleted { mt, tag, place, is_marker, text } => {
            let ops = crate::registry::msg(mt).unwrap();
            let fam = if tag.as_bytes()[0] == b'5' { &tag[..2] } else { tag.as_str() };
            let site = format!("{fam}@{place}");
            let tag_full = tag;
            let tag = &site;
            match guard(|| (ops.parse_b4)(text)) {
                Err(_) => l.eval(stratum, "panic(C07)", false, 0),
                Ok(Ok(_)) => {
                    l.eval(stratum, "accepted", true, hash_bytes2(mt, text));
                    v(l, mt, "deleted", tag, "accepted", format!("MT{mt}: a message lacking the mandatory field {tag} is accepted"), case);
                }
                Ok(Err(e)) => {
                    l.eval(stratum, "rejected", true, hash_bytes2(mt, text));
                    if *is_marker {
                        return;
                    }
                    let rendered = format!("{}\n{}\n{}", e, e.debug_report(), e.brief_message());
                    let (s_tag, s_type) = match &e {
                        ParseError::MissingRequiredField { field_tag, message_type, .. } => {
                            (field_tag == tag_full || field_tag.as_str() == &tag_full[..2], message_type.contains(mt.as_str()))
                        }
                        _ => (false, false),
                    };
                    if !(s_tag || names_tag(&rendered, tag_full)) {
                        let reported = crate::props::c02::err_class(&e);
                        v(
                            l,
                            mt,
                            "deleted",
                            tag,
                            &format!("wrong-culprit:{reported}"),
                            format!("MT{mt}: with mandatory field {tag} missing the error does not identify it: {}", e.to_string().chars().take(100).collect::<String>()),
                            case,
                        );
                    } else if !(s_type || rendered.contains(mt.as_str())) {
                        v(l, mt, "deleted", tag, "no-message-type", format!("MT{mt}: the error for missing field {tag} does not identify the message type"), case);
                    } else if hash_bytes2(mt, text) % 8 == 0 {
                        plugin_route(l, mt, "deleted", tag, tag_full, None, text, case);
                    }
                }
            }
        }
        Case::Corrupted { mt, tag, content, text, acceptance_not_judged } => {
            let ops = crate::registry::msg(mt).unwrap();
            match guard(|| (ops.parse_b4)(text)) {
                Err(_) => l.eval(stratum, "panic(C07)", false, 0),
                Ok(Ok(_)) if *acceptance_not_judged => l.eval(stratum, "accepted(not judged here)", false, 0),
                Ok(Ok(_)) => {
                    l.eval(stratum, "accepted", true, hash_bytes2(mt, text));
                    v(l, mt, "corrupted", tag, "accepted", format!("MT{mt}: a message whose field {tag} has content outside its format is accepted"), case);
                }
                Ok(Err(e)) => {
                    l.eval(stratum, "rejected", true, hash_bytes2(mt, text));
                    let rendered = format!("{}\n{}", e, e.debug_report());
                    let (s_tag, s_val) = match &e {
                        ParseError::InvalidFieldFormat(x) => (x.field_tag == *tag, x.value == *content),
                        _ => (false, false),
                    };
                    // a structured payload, where the error has one, must itself be right: its tag
                    // component is the culprit's tag (or its number), not some other text
                    if let ParseError::InvalidFieldFormat(x) = &e
                        && !(x.field_tag == *tag || x.field_tag.as_str() == &tag[..2.min(tag.len())])
                        && (x.value == *tag || !crate::tok::is_tag(&x.field_tag))
                    {
                        v(l, mt, "corrupted", tag, "payload-tag-is-not-a-tag", format!("MT{mt}: the structured error for invalid field {tag} carries {:?} in its tag component (value component: {:?})", x.field_tag.chars().take(30).collect::<String>(), x.value.chars().take(30).collect::<String>()), case);
                    } else if !(s_tag || names_tag(&rendered, tag)) {
                        let reported = crate::props::c02::err_class(&e);
                        v(
                            l,
                            mt,
                            "corrupted",
                            tag,
                            &format!("wrong-culprit:{reported}"),
                            format!("MT{mt}: with invalid content in field {tag} the error does not name that field: {}", e.to_string().chars().take(100).collect::<String>()),
                            case,
                        );
                    } else if !content.is_empty() && !(s_val || rendered.contains(content.as_str())) {
                        v(l, mt, "corrupted", tag, "no-content", format!("MT{mt}: the error for invalid field {tag} does not carry its content"), case);
                    } else if hash_bytes2(mt, text) % 8 == 0 || content.contains("\n\n") {
                        plugin_route(l, mt, "corrupted", tag, tag, Some(content.as_str()), text, case);
                    }
                }
            }
        }
    }
}

pub fn run(cfg: &Config) -> i32 {
    let started = std::time::Instant::now();
    let layouts = layout::layouts();
    let per_type = cfg.tier.pick(400u64, 6000u64);
    let n = layouts.len() as u64 * per_type;
    let total = par_for(cfg, n, |i, l| {
        let li = (i % layouts.len() as u64) as usize;
        let vi = i / layouts.len() as u64;
        let lay = &layouts[li];
        let mt = lay.mt;
        let mut r = Rng::new(cfg.seed, &format!("c09:{mt}"), vi);
        let mut opt = GenOptions { optional_per_mille: [0, 300, 700, 1000][(vi % 4) as usize], max_repeat: 2, max_seq: [1, 2, 3][(vi % 3) as usize], maximal: false, minimal: false };
        if vi % 4 == 0 {
            opt.minimal = true;
        }
        if vi % 4 == 3 {
            opt.maximal = true;
        }
        let mut g = Gen { r: &mut r, counter: (vi as usize) * 40, mt, opt, force_option: None, force_include: None };
        let gf = g.message(lay);
        let mut toks: Vec<Token> = Vec::new();
        let mut places: Vec<&'static str> = Vec::new();
        for f in gf {
            places.push(if f.seq_index.is_some() { "repeating-sequence" } else if f.in_object { "cover-sequence" } else { "top-level" });
            match spec::canonical(&f.tag, &f.content) {
                Canon::Ok(c) => toks.push(Token { tag: f.tag, content: c }),
                _ => return,
            }
        }
        if mt == "204" && toks.len() >= 2 && toks[1].tag == "19" {
            // known C03 finding: the library wants 19 first; judge C09 on the order it accepts
            toks.swap(0, 1);
        }
        let ops = crate::registry::msg(mt).unwrap();
        let base_text = tok::render(&toks, false, false);
        if !matches!(guard(|| (ops.parse_b4)(&base_text)), Ok(Ok(_))) {
            l.eval(&format!("MT{mt}/base"), "base-rejected(C03)", false, 0);
            return;
        }
        l.eval(&format!("MT{mt}/base"), "base-accepted", true, hash_bytes2(mt, &base_text));
        let markers = marker_tags(lay);
        let tags: Vec<&str> = toks.iter().map(|t| t.tag.as_str()).collect();
        // the acceptor works on the documented order; undo the MT204 swap for it
        let doc_order = |ts: &[&str]| -> Vec<String> {
            let mut x: Vec<String> = ts.iter().map(|s| s.to_string()).collect();
            if mt == "204" && x.len() >= 2 && x[0] == "19" && x[1] == "20" {
                x.swap(0, 1);
            }
            x
        };
        for k in 0..toks.len() {
            let mut rest: Vec<&str> = tags.clone();
            rest.remove(k);
            let d = doc_order(&rest);
            let dr: Vec<&str> = d.iter().map(|s| s.as_str()).collect();
            if layout::accepts(lay, &dr) {
                l.eval(&format!("MT{mt}/delete"), "still-well-formed(not judged)", false, 0);
                continue;
            }
            let mut fs = toks.clone();
            let t = fs.remove(k);
            if matches!(mt, "192" | "292") && t.tag == "79" {
                // field 79 is optional in the layout; its presence is demanded by network rule C1
                // (79 or a copy of the original fields), which belongs to C04, not to C09
                l.eval(&format!("MT{mt}/delete"), "conditional-by-network-rule(not judged)", false, 0);
                continue;
            }
            // a marker is the first field of a repeating sequence (for MT204 the second and later :20:)
            let is_marker = markers.contains(&t.tag[..2].to_string()) && !(k == 0 || (mt == "204" && k <= 1 && t.tag == "20"));
            let case = Case::Deleted { mt: mt.to_string(), tag: t.tag.clone(), place: places[k].to_string(), is_marker, text: tok::render(&fs, false, false) };
            let st = format!("MT{mt}/delete");
            if l.want_sample(&st) {
                l.sample(&st, json!({"deleted": t.tag, "case": case}));
            }
            judge(cfg, &case, l, &st);
        }
        for k in 0..toks.len() {
            if !mutate::structured_tag(&toks[k].tag) {
                continue;
            }
            for (lab, nc) in mutate::corruptions(&toks[k].content) {
                let mut fs = toks.clone();
                fs[k].content = nc.clone();
                let case = Case::Corrupted { mt: mt.to_string(), tag: toks[k].tag.clone(), content: nc, text: tok::render(&fs, false, false), acceptance_not_judged: false };
                let st = format!("MT{mt}/corrupt:{lab}");
                if l.want_sample(&format!("corrupt:{lab}")) {
                    l.sample(&format!("corrupt:{lab}"), json!({"case": case}));
                }
                judge(cfg, &case, l, &st);
            }
        }
        // long contents (several hundred characters) that no field format admits: every field, narrative ones
        // included, with its own content followed by lines up to 300 and 700 characters in total, one of them 90
        // characters long. Where the message is rejected because of it, the error must carry the whole content
        if vi % 4 == 1 {
            // an empty line inside the value (no format has one): judged where the text-block route rejects it
            for k in 0..toks.len() {
                let mut fs = toks.clone();
                let nc = format!("{}\n\nTEXT AFTER EMPTY LINE", toks[k].content.lines().next().unwrap_or(""));
                fs[k].content = nc.clone();
                let case = Case::Corrupted { mt: mt.to_string(), tag: toks[k].tag.clone(), content: nc, text: tok::render(&fs, false, false), acceptance_not_judged: true };
                judge(cfg, &case, l, &format!("MT{mt}/corrupt:empty-line-inside"));
            }
            for k in 0..toks.len() {
                for total in [300usize, 700] {
                    let mut nc = toks[k].content.clone();
                    nc.push_str(&format!("\n{}", "W".repeat(90)));
                    let mut n = 0;
                    while nc.len() < total {
                        n += 1;
                        nc.push_str(&format!("\nEXTRA LINE NUMBER {n} OF THE CONTENT"));
                    }
                    let mut fs = toks.clone();
                    fs[k].content = nc.clone();
                    let case = Case::Corrupted { mt: mt.to_string(), tag: toks[k].tag.clone(), content: nc, text: tok::render(&fs, false, false), acceptance_not_judged: true };
                    judge(cfg, &case, l, &format!("MT{mt}/corrupt:long-{total}"));
                }
            }
        }
    });
    let mut rep = Report::default();
    rep.rule = "bases = messages generated from the independent layout table that the library accepts (minimal, maximal, two optional densities, 1-3 sequence occurrences); for each base every field occurrence is deleted (judged when the layout acceptor no longer accepts the remaining tag sequence, i.e. the occurrence was mandatory) and every structured field's content is replaced by three certainly-invalid contents. Non-trivial = the parser ran on a judged mutant; distinct = distinct (type, text) digests".into();
    rep.assumptions = vec![
        "mandatory-ness is decided by the layout acceptor of spec/layout.rs".into(),
        "identification is judged leniently: structured payload or rendered text may carry tag, type and content".into(),
    ];
    rep.required_strata = layouts.iter().map(|l| format!("MT{}/delete", l.mt)).collect();
    rep.min_evals = 1000;
    finish(cfg, started, total, rep)
}

pub fn replay(cfg: &Config, case: &Value) -> Local {
    let mut l = Local::default();
    let c: Case = serde_json::from_value(case.clone()).expect("C09 case");
    judge(cfg, &c, &mut l, "replay");
    l
}
