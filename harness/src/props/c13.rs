//! C13 — Validation entry points are coherent, order-stable and side-effect free.
//!
//! Metamorphic monitor over valid and rule-violating messages (corpus messages and JSON-surgery
//! variants with 1-3 random rule-relevant edits; the C04 enumeration feeds the same judge):
//! stop-on-first is a prefix of the full list and empty exactly when it is; the validity flag,
//! the auto-detected wrapper and the plugin agree with the full list; a second call returns the
//! same list; the message is unchanged. Error identity = (code, rendered text).
//! Key: `C13|<MT>|<clause>`.

use crate::corpus::Corpus;
use crate::monitor::*;
use crate::registry::msg;
use crate::rng::{Rng, hash_bytes2};
use crate::surgery::{self, LeafPool};
use serde::{Deserialize, Serialize};
use serde_json::{Value, json};
use swift_mt_message::SwiftParser;
use swift_mt_message::errors::SwiftValidationError;

#[derive(Clone, Debug, Serialize, Deserialize)]
pub enum Case {
    /// full message as JSON text (read back through serde)
    Json { mt: String, json: String },
}

fn ident(e: &SwiftValidationError) -> (String, String) {
    (e.error_code().to_string(), e.to_string())
}

fn v(l: &mut Local, mt: &str, clause: &str, what: String, case: &Case) {
    l.violation(format!("C13|MT{mt}|{clause}"), what, || serde_json::to_value(case).unwrap());
}

/// The coherence judge, shared with C04 (which passes its enumerated messages through it)
pub fn judge_message(mt: &str, m: &dyn crate::registry::Full, l: &mut Local, case: &Case, stratum: &str) {
    let body = m.body();
    let Ok(dbg0) = guard(|| m.dbg()) else { return };
    let r = guard(|| {
        let full = body.validate(false);
        let first = body.validate(true);
        let full2 = body.validate(false);
        let first2 = body.validate(true);
        (full, first, full2, first2)
    });
    let Ok((full, first, full2, first2)) = r else {
        l.eval(stratum, "panic(C07)", false, 0);
        return;
    };
    let fi: Vec<_> = full.iter().map(ident).collect();
    let fs: Vec<_> = first.iter().map(ident).collect();
    let codes: Vec<&str> = fi.iter().map(|x| x.0.as_str()).collect();
    l.eval(
        stratum,
        match full.len() {
            0 => "rule-clean",
            1 => "one-error",
            _ => "several-errors",
        },
        true,
        hash_bytes2(mt, &format!("{dbg0}")),
    );
    l.count(&format!("codesets:{}", codes.join("+")), 1);
    // the accessors and the conversions of each error agree on its code
    for e in &full {
        let code = e.error_code().to_string();
        if e.code() != code {
            v(l, mt, "accessors-disagree", format!("MT{mt}: error_code() = {code} but code() = {}", e.code()), case);
        }
        if let Ok(ve) = guard(|| swift_mt_message::ValidationError::from(e.clone())) {
            let carried = match &ve {
                swift_mt_message::ValidationError::BusinessRuleValidation { rule_name, .. } => rule_name == &code,
                swift_mt_message::ValidationError::FormatValidation { message, .. } | swift_mt_message::ValidationError::ValueValidation { message, .. } => message.starts_with(&format!("{code}:")),
                _ => false,
            };
            if !carried {
                v(l, mt, "conversion-loses-code", format!("MT{mt}: ValidationError::from(error {code}) does not carry the code: {ve:?}"), case);
            }
        }
        if let Ok(pe) = guard(|| swift_mt_message::ParseError::from(e.clone()))
            && !pe.to_string().contains(e.message())
        {
            v(l, mt, "conversion-loses-message", format!("MT{mt}: ParseError::from(error {code}) renders without the error's message"), case);
        }
    }
    if fs.len() > fi.len() || fi[..fs.len()] != fs[..] {
        v(
            l,
            mt,
            "stop-on-first-not-a-prefix",
            format!("MT{mt}: stop-on-first {:?} is not a prefix of the full list {:?}", fs.iter().map(|x| &x.0).collect::<Vec<_>>(), codes),
            case,
        );
    }
    if fs.is_empty() != fi.is_empty() {
        v(
            l,
            mt,
            "stop-on-first-emptiness",
            format!("MT{mt}: stop-on-first list has {} errors while the full list has {}", fs.len(), fi.len()),
            case,
        );
    }
    if full2.iter().map(ident).collect::<Vec<_>>() != fi || first2.iter().map(ident).collect::<Vec<_>>() != fs {
        v(l, mt, "not-repeatable", format!("MT{mt}: validating the same message again returns a different list"), case);
    }
    if let Ok(dbg1) = guard(|| m.dbg())
        && dbg1 != dbg0
    {
        v(l, mt, "message-changed", format!("MT{mt}: the message changed while being validated"), case);
    }
    // message-level validity flag
    if let Ok(vr) = guard(|| m.validate()) {
        let names: Vec<String> = vr
            .errors
            .iter()
            .map(|e| match e {
                swift_mt_message::ValidationError::BusinessRuleValidation { rule_name, .. } => rule_name.clone(),
                other => format!("{other:?}"),
            })
            .collect();
        if vr.is_valid != fi.is_empty() || names.iter().map(|s| s.as_str()).collect::<Vec<_>>() != codes {
            v(
                l,
                mt,
                "validity-flag-disagrees",
                format!("MT{mt}: SwiftMessage::validate says is_valid={} with {:?}, full list is {:?}", vr.is_valid, names, codes),
                case,
            );
        }
    }
    // text route: wrapper and plugin against the typed validation of the same text
    let Ok(text) = guard(|| m.to_mt_message()) else { return };
    let ops = msg(mt).unwrap();
    match guard(|| (ops.parse_full)(&text)) {
        Ok(Ok(t)) => {
            let Ok(terrs) = guard(|| t.body().validate(false)) else { return };
            let tcodes: Vec<String> = terrs.iter().map(|e| e.error_code().to_string()).collect();
            if let Ok(Ok(p)) = guard(|| SwiftParser::parse_auto(&text))
                && let Ok(wr) = guard(|| p.validate())
                && (wr.is_valid != terrs.is_empty() || wr.errors.len() != terrs.len())
            {
                v(
                    l,
                    mt,
                    "wrapper-disagrees",
                    format!("MT{mt}: ParsedSwiftMessage::validate is_valid={} ({} errors), typed full list {:?}", wr.is_valid, wr.errors.len(), tcodes),
                    case,
                );
            }
            if let Ok(Ok(pj)) = guard(|| crate::plug::validate_mt(&text)) {
                let valid = pj["valid"].as_bool().unwrap_or(false);
                let errs = pj["errors"].as_array().cloned().unwrap_or_default();
                let mut ok = valid == terrs.is_empty() && errs.len() == terrs.len();
                if ok {
                    for (e, c) in errs.iter().zip(&tcodes) {
                        if !e.as_str().unwrap_or("").contains(c.as_str()) {
                            ok = false;
                        }
                    }
                }
                if !ok {
                    v(
                        l,
                        mt,
                        "plugin-disagrees",
                        format!("MT{mt}: validate plugin valid={valid} with {} errors, typed full list {:?}", errs.len(), tcodes),
                        case,
                    );
                }
            }
        }
        Ok(Err(_)) => {
            // not representable as text (e.g. a surgery state the parser refuses): the plugin must not call it valid
            l.count("text-route-rejected", 1);
            if let Ok(Ok(pj)) = guard(|| crate::plug::validate_mt(&text))
                && pj["valid"].as_bool().unwrap_or(false)
            {
                v(l, mt, "plugin-valid-though-unparseable", format!("MT{mt}: validate plugin reports valid for a text the typed parser rejects"), case);
            }
        }
        Err(_) => {}
    }
}

pub fn judge(_cfg: &Config, case: &Case, l: &mut Local, stratum: &str) {
    let Case::Json { mt, json } = case;
    let ops = msg(mt).expect("type");
    match guard(|| (ops.full_from_str)(json)) {
        Ok(Ok(m)) => judge_message(mt, m.as_ref(), l, case, stratum),
        Ok(Err(_)) => l.eval(stratum, "not-deserialisable", false, 0),
        Err(_) => l.eval(stratum, "panic(C07)", false, 0),
    }
}

pub fn run(cfg: &Config) -> i32 {
    let started = std::time::Instant::now();
    let c = Corpus::load(&cfg.verif_dir);
    // parse the corpus into JSON documents and build the leaf pool per type
    let mut docs: Vec<(String, Value)> = Vec::new();
    let mut pools: std::collections::BTreeMap<String, LeafPool> = Default::default();
    for e in &c.entries {
        let ops = msg(&e.mt).unwrap();
        if let Ok(Ok(m)) = guard(|| (ops.parse_full)(&e.text))
            && let Ok(j) = m.json()
        {
            pools.entry(e.mt.clone()).or_default().add(&j);
            docs.push((e.mt.clone(), j));
        }
    }
    let variants = cfg.tier.pick(600u64, 4000u64);
    let ndocs = docs.len() as u64;
    let n = ndocs * (variants + 1);
    let root = vec!["fields".to_string()];
    // rule-violating messages of the C04 enumeration (sweep points), in the envelope of a corpus message of the type
    let mut extra: Vec<(String, Value, &str)> = Vec::new();
    for (mt, body) in crate::props::c04::sweep_bodies(cfg.tier.pick(300usize, 6000usize)) {
        if let Some((_, env)) = docs.iter().find(|d| d.0 == mt) {
            let mut j = env.clone();
            j["fields"] = body;
            // the same point with its first / last sequence occurrence repeated: the rule then fails in several
            // occurrences, which is where the order of the stop-on-first-error result shows
            if let Some(Value::Array(a)) = j["fields"].get("#")
                && !a.is_empty()
            {
                let (first, last) = (a[0].clone(), a[a.len() - 1].clone());
                for rep in [vec![first.clone(), first], vec![last.clone(), last.clone(), last]] {
                    let mut j2 = j.clone();
                    j2["fields"]["#"] = Value::Array(rep);
                    extra.push((mt.clone(), j2, "c04-point-repeated"));
                }
            }
            extra.push((mt, j, "c04-point"));
        }
    }
    // repeated elements: every array of every corpus message with its first element three times over (the same
    // violation reported twice with the same words is where a de-duplicating adapter differs from the full list)
    {
        fn arrays(v: &Value, path: &mut Vec<String>, out: &mut Vec<Vec<String>>) {
            match v {
                Value::Object(m) => {
                    for (k, x) in m {
                        path.push(k.clone());
                        arrays(x, path, out);
                        path.pop();
                    }
                }
                Value::Array(a) => {
                    if !a.is_empty() {
                        out.push(path.clone());
                    }
                    if let Some(x) = a.first() {
                        path.push("0".into());
                        arrays(x, path, out);
                        path.pop();
                    }
                }
                _ => {}
            }
        }
        fn at<'a>(v: &'a mut Value, path: &[String]) -> Option<&'a mut Value> {
            let mut cur = v;
            for p in path {
                cur = match cur {
                    Value::Object(m) => m.get_mut(p)?,
                    Value::Array(a) => a.get_mut(p.parse::<usize>().ok()?)?,
                    _ => return None,
                };
            }
            Some(cur)
        }
        let mut seen = std::collections::BTreeSet::new();
        for (mt, doc) in &docs {
            let mut paths = Vec::new();
            arrays(&doc["fields"], &mut vec!["fields".to_string()], &mut paths);
            for pth in paths {
                if !seen.insert((mt.clone(), pth.clone())) {
                    continue;
                }
                for times in [2usize, 3] {
                    let mut j = doc.clone();
                    if let Some(Value::Array(a)) = at(&mut j, &pth) {
                        let first = a[0].clone();
                        *a = vec![first; times];
                    }
                    extra.push((mt.clone(), j, "repeated-element"));
                }
            }
        }
    }
    let nextra = extra.len() as u64;
    let total = par_for(cfg, n + nextra, |i, l| {
        if i >= n {
            let (mt, j, lab) = &extra[(i - n) as usize];
            let case = Case::Json { mt: mt.clone(), json: j.to_string() };
            judge(cfg, &case, l, &format!("MT{mt}/{lab}"));
            return;
        }
        let d = (i % ndocs) as usize;
        let k = i / ndocs;
        let (mt, doc) = &docs[d];
        let (lab, j) = if k == 0 {
            ("corpus".to_string(), doc.clone())
        } else {
            let mut r = Rng::new(cfg.seed, "c13", i);
            let mut j = doc.clone();
            let edits = 1 + r.below(3);
            let mut labs = Vec::new();
            for _ in 0..edits {
                if let Some(x) = surgery::random_edit(&mut j, &root, &pools[mt], &mut r) {
                    labs.push(x);
                }
            }
            (format!("surgery:{}", labs.first().copied().unwrap_or("none")), j)
        };
        let case = Case::Json {
            mt: mt.clone(),
            json: j.to_string(),
        };
        let stratum = format!("MT{mt}/{}", if k == 0 { "corpus" } else { "surgery" });
        if l.want_sample(&lab) {
            l.sample(&lab, json!({"mt": mt, "edit": lab, "fields": j.get("fields")}));
        }
        judge(cfg, &case, l, &stratum);
    });
    let mut rep = Report::default();
    let ncodesets = total.counters.keys().filter(|k| k.starts_with("codesets:")).count();
    rep.extra.insert("distinct_error_code_sets".into(), json!(ncodesets));
    rep.rule = "cases = every corpus message of all 30 types plus JSON-surgery variants (1-3 random edits: remove a field or leaf, overwrite a code / currency / amount with a value seen elsewhere or a rule-relevant code word, resize or reverse arrays) read back through serde, plus the one- and two-dimensional sweep points of the C04 rule enumeration (stratum c04-point); each validated twice through four entry points. Non-trivial = the message deserialised and was validated; distinct = distinct message states (Debug digests)".into();
    rep.assumptions = vec!["error identity = (error code, Display text)".into(), "messages violating several rules at once arise from multi-edit surgery (counted under several-errors)".into()];
    rep.required_strata = crate::registry::MESSAGES.iter().map(|m| format!("MT{}/corpus", m.code)).collect();
    rep.min_evals = 1000;
    finish(cfg, started, total, rep)
}

pub fn replay(cfg: &Config, case: &Value) -> Local {
    let mut l = Local::default();
    let c: Case = serde_json::from_value(case.clone()).expect("C13 case");
    judge(cfg, &c, &mut l, "replay");
    l
}
