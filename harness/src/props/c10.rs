//! C10 — Envelope integrity: blocks and headers are extracted and reproduced faithfully.
//!
//! Generator and reference reader for blocks 1, 2 (input 17/18/21 and output 46/47 characters),
//! 3 (the documented tags) and 5; a brace-structure block splitter (tok.rs) is applied to input
//! and output and the tag->value maps are compared (order of tags is not judged).
//! Clauses: recognised tags/values preserved; blocks 1 and 2 byte-identical; block boundaries
//! independent of characters inside values (z-charset `{` in 77T, marker look-alikes in values);
//! headers of wrong length / direction / character class rejected rather than partly read.
//! Key: `C10|<block>|<clause>|<tag or component>`.

use crate::corpus::{self, Corpus};
use crate::monitor::*;
use crate::rng::{Rng, hash_bytes2};
use crate::tok;
use serde::{Deserialize, Serialize};
use serde_json::{Value, json};
use swift_mt_message::SwiftParser;

#[derive(Clone, Debug, Serialize, Deserialize)]
pub enum Case {
    /// a well-formed envelope around a valid block 4: must be accepted and reproduced
    WellFormed { label: String, text: String },
    /// a malformed header variant: must be rejected
    Malformed { label: String, block: String, text: String },
}

fn v(l: &mut Local, block: &str, clause: &str, what_tag: &str, what: String, case: &Case) {
    l.violation(format!("C10|{block}|{clause}|{what_tag}"), what, || serde_json::to_value(case).unwrap());
}

/// block-3 tags with a documented-format example value each (k varies the value)
pub fn b3_value(tag: &str, k: usize) -> String {
    match tag {
        "103" => ["EBA", "TGT", "CAD"][k % 3].to_string(),
        "113" => ["XXXX", "NNNN", "0020"][k % 3].to_string(),
        "108" => format!("MUR{:013}", k),
        "119" => ["STP", "REMIT", "COV", "RFDD"][k % 4].to_string(),
        "423" => {
            if k % 2 == 0 { format!("2501{:02}120000", 1 + k % 28) } else { format!("2501{:02}12000099", 1 + k % 28) }
        }
        "106" => format!("2501{:02}BANKBEBBAXXX{:04}{:06}", 1 + k % 28, k % 10000, k % 1000000),
        "424" => format!("RELREF{:010}", k),
        "111" => format!("{:03}", k % 1000),
        "121" => format!("123e4567-e89b-42d3-a456-{:012}", k),
        "115" => format!("ADDRESSEE INFO {:05}", k),
        "165" => format!("ABC/RELEASE INFO {k}"),
        "433" => format!("AOK/SCREENED {k}"),
        "434" => format!("FPO/CONTROL {k}"),
        _ => String::new(),
    }
}
/// values at the minimum and maximum documented length of each block-3 tag (label, value)
pub fn b3_boundary_values(tag: &str) -> Vec<(String, String)> {
    let x = |n: usize| -> String { "AB1 cd2-EF3.gh4/IJ5,kl6(MN7)op8+QR9".chars().cycle().skip(0).take(n).collect::<String>().trim().replace("  ", " x") };
    let fill = |n: usize| -> String {
        let mut v = x(n);
        while v.chars().count() < n {
            v.push('Z');
        }
        v
    };
    let mut out: Vec<(String, String)> = Vec::new();
    match tag {
        "108" | "424" => {
            out.push(("len=1".into(), "M".into()));
            out.push(("len=16".into(), fill(16)));
        }
        "119" => {
            out.push(("len=1".into(), "S".into()));
            out.push(("len=8".into(), "ABCD1234".into()));
        }
        "115" => {
            out.push(("len=1".into(), "A".into()));
            out.push(("len=32".into(), fill(32)));
        }
        "165" => {
            out.push(("info=1".into(), "ABC/R".into()));
            out.push(("info=20".into(), format!("ABC/{}", fill(20))));
            out.push(("info=21".into(), format!("ABC/{}", fill(21))));
            out.push(("info=34".into(), format!("ABC/{}", fill(34))));
        }
        "433" | "434" => {
            out.push(("info=1".into(), "AOK/S".into()));
            out.push(("info=20".into(), format!("FPO/{}", fill(20))));
        }
        "423" => {
            out.push(("no-hundredths".into(), "250131235959".into()));
            out.push(("hundredths".into(), "25013123595999".into()));
        }
        "111" => {
            out.push(("000".into(), "000".into()));
            out.push(("999".into(), "999".into()));
        }
        _ => {}
    }
    out
}
pub const B3_TAGS: &[&str] = &["103", "113", "108", "119", "423", "106", "424", "111", "121", "115", "165", "433", "434"];
/// block-5 tags the parser recognises (by the struct documentation) with example values
pub const B5_TAGS: &[&str] = &["CHK", "TNG", "PDE", "DLM", "MRF", "PDM", "SYS", "MAC"];
pub fn b5_value(tag: &str, k: usize) -> String {
    match tag {
        "CHK" => format!("{:012X}", 0x123456789ABCu64 + k as u64),
        "TNG" | "DLM" => String::new(),
        "PDE" | "PDM" => format!("1348{:06}BANKFRPPAXXX2222123456", 250101 + k % 20),
        "MRF" => format!("1806271539180626BANKFRPPAXXX2222123456"),
        "SYS" => format!("1454{:06}BANKFRPPAXXX2222123456", 250101 + k % 20),
        "MAC" => format!("{:08X}", 0x00112233u32 + k as u32),
        _ => String::new(),
    }
}

pub fn block1(k: usize, bic11: bool) -> String {
    let app = ["F", "A", "L"][k % 3];
    let svc = ["01", "21"][k % 2];
    let lt = if bic11 { format!("BANK{}EBB{:03}A", ["B", "D", "F"][k % 3], 100 + k % 899) } else { format!("BANK{}EBBAXXX", ["B", "D", "F"][k % 3]) };
    format!("{app}{svc}{lt}{:04}{:06}", k % 10000, (k * 7) % 1000000)
}
pub fn block2_input(mt: &str, k: usize, len: usize) -> String {
    let dest = format!("BANK{}EFFXXXX", ["D", "G", "U"][k % 3]);
    let prio = ["N", "U", "S"][k % 3];
    match len {
        17 => format!("I{mt}{dest}{prio}"),
        18 => format!("I{mt}{dest}{prio}{}", 1 + (k / 3) % 3),
        _ => format!("I{mt}{dest}{prio}{}{:03}", 1 + (k / 3) % 3, 3 + k % 20),
    }
}
pub fn block2_output(mt: &str, k: usize, len: usize) -> String {
    // the output date is usually later than the input (MIR) date
    let base = format!("O{mt}{:02}{:02}2501{:02}BANKBEBBAXXX{:04}{:06}2502{:02}{:02}{:02}", k % 24, k % 60, 1 + k % 28, k % 10000, k % 1000000, 1 + (k + 3) % 28, (k + 1) % 24, (k + 7) % 60);
    if len == 47 { format!("{base}{}", ["N", "U", "S"][k % 3]) } else { base }
}

fn assemble(b1: &str, b2: &str, b3: Option<&str>, b4: &str, b5: Option<&str>) -> String {
    let mut s = format!("{{1:{b1}}}{{2:{b2}}}");
    if let Some(x) = b3 {
        s.push_str(&format!("{{3:{x}}}"));
    }
    s.push_str(&format!("{{4:\n{b4}\n-}}"));
    if let Some(x) = b5 {
        s.push_str(&format!("{{5:{x}}}"));
    }
    s
}

fn tag_map(content: &str) -> Option<Vec<(String, String)>> {
    let mut m = tok::split_tags(content)?;
    m.sort();
    Some(m)
}

pub fn judge(case: &Case, l: &mut Local) {
    match case {
        Case::WellFormed { label, text } => {
            let stratum = format!("well-formed/{}", label.split(':').next().unwrap_or(""));
            let p = match guard(|| SwiftParser::parse_auto(text)) {
                Ok(Ok(p)) => p,
                Ok(Err(e)) => {
                    l.eval(&stratum, "rejected", true, hash_bytes2("wf", text));
                    v(l, "envelope", "well-formed-rejected", &crate::props::c02::err_class(&e), format!("a well-formed envelope ({label}) is rejected: {}", e.to_string().chars().take(100).collect::<String>()), case);
                    return;
                }
                Err(_) => {
                    l.eval(&stratum, "panic(C07)", false, 0);
                    return;
                }
            };
            l.eval(&stratum, "accepted", true, hash_bytes2("wf", text));
            let code = p.message_type();
            let Some(ops) = crate::registry::msg(code) else { return };
            let Ok(Ok(m)) = guard(|| (ops.parse_full)(text)) else { return };
            let Ok(y) = guard(|| m.to_mt_message()) else { return };
            let (Some(bx), Some(by)) = (tok::split_blocks(text), tok::split_blocks(&y)) else {
                v(l, "envelope", "output-not-splittable", "-", format!("serialised message is not a sequence of brace-delimited blocks"), case);
                return;
            };
            let get = |bs: &Vec<(String, String)>, id: &str| bs.iter().find(|(i, _)| i == id).map(|(_, c)| c.clone());
            for id in ["1", "2"] {
                if get(&bx, id) != get(&by, id) {
                    v(l, id, "not-reproduced", "-", format!("block {id} is not reproduced byte for byte: {:?} -> {:?}", get(&bx, id), get(&by, id)), case);
                }
            }
            // boundary cases carry their cause in the key so that they never hide a plain tag loss
            let cause = if label.contains("contains") { format!("@{}", label.split(':').next().unwrap_or("")) } else { String::new() };
            for id in ["3", "5"] {
                let (mx, my) = (get(&bx, id), get(&by, id));
                if mx.is_some() != my.is_some() {
                    v(l, id, if mx.is_some() { "block-dropped" } else { "block-invented" }, &cause, format!("block {id} is {} in the input and {} in the serialised message", if mx.is_some() { "present" } else { "absent" }, if my.is_some() { "present" } else { "absent" }), case);
                }
                let tx = mx.as_deref().and_then(tag_map).unwrap_or_default();
                let ty = my.as_deref().and_then(tag_map).unwrap_or_default();
                for (t, val) in &tx {
                    match ty.iter().find(|(t2, _)| t2 == t) {
                        None => v(l, id, "tag-lost", &format!("{t}{cause}"), format!("block {id}: tag {t} of the input is missing from the serialised message"), case),
                        Some((_, v2)) if v2 != val => v(l, id, "value-changed", &format!("{t}{cause}"), format!("block {id}: tag {t} value {val:?} comes back as {v2:?}"), case),
                        _ => {}
                    }
                }
                for (t, _) in &ty {
                    if !tx.iter().any(|(t2, _)| t2 == t) {
                        v(l, id, "tag-invented", &format!("{t}{cause}"), format!("block {id}: tag {t} appears in the output only"), case);
                    }
                }
            }
            // the header parsers called directly on the block contents: same text back from the wrapper and from
            // the inner header's own Display; the accessors answer what was written
            if let Some(b2) = get(&bx, "2")
                && let Ok(Ok(h)) = guard(|| swift_mt_message::ApplicationHeader::parse(&b2))
            {
                let whole = h.to_string();
                let inner = match &h {
                    swift_mt_message::ApplicationHeader::Input(x) => x.to_string(),
                    swift_mt_message::ApplicationHeader::Output(x) => x.to_string(),
                };
                if whole != b2 || inner != b2 {
                    v(l, "2", "direct-display-differs", "-", format!("ApplicationHeader::parse({b2:?}) displays as {whole:?}, its inner header as {inner:?}"), case);
                }
                if h.message_type() != code {
                    v(l, "2", "accessor-wrong", "message_type", format!("ApplicationHeader::message_type() = {:?} for block 2 {b2:?}", h.message_type()), case);
                }
                // priority: input headers carry it at position 16, output headers optionally at 46
                let want = if b2.starts_with('I') { b2.get(16..17) } else { b2.get(46..47) };
                if h.priority() != want {
                    v(l, "2", "accessor-wrong", "priority", format!("ApplicationHeader::priority() = {:?} for block 2 {b2:?}", h.priority()), case);
                }
            }
            if let Some(b1) = get(&bx, "1")
                && let Ok(Ok(h)) = guard(|| swift_mt_message::BasicHeader::parse(&b1))
                && h.to_string() != b1
            {
                v(l, "1", "direct-display-differs", "-", format!("BasicHeader::parse({b1:?}) displays as {:?}", h.to_string()), case);
            }
            // JSON route: the message read back from its own JSON publishes the same envelope, block for block
            if let Ok(Ok(j)) = guard(|| m.json())
                && let Ok(Ok(mj)) = guard(|| (ops.full_from_json)(&j))
                && let Ok(yj) = guard(|| mj.to_mt_message())
                && yj != y
                && let Some(bj) = tok::split_blocks(&yj)
            {
                for id in ["1", "2", "3", "5"] {
                    if get(&by, id) != get(&bj, id) {
                        v(l, id, "json-route-differs", &cause, format!("block {id}: published as {:?} directly but as {:?} after a trip through the message's own JSON", get(&by, id), get(&bj, id)), case);
                    }
                }
            }
            // second generation: the library's own output must be read back with the same envelope (a
            // spelling it writes but cannot read shows only here)
            match guard(|| (ops.parse_full)(&y)) {
                Ok(Ok(m2)) => {
                    if let Ok(y2) = guard(|| m2.to_mt_message())
                        && let Some(bz) = tok::split_blocks(&y2)
                    {
                        for id in ["1", "2", "3", "5"] {
                            let (a, b) = (get(&by, id), get(&bz, id));
                            let same = if id == "3" || id == "5" { a.as_deref().and_then(tag_map) == b.as_deref().and_then(tag_map) && a.is_some() == b.is_some() } else { a == b };
                            if !same {
                                v(l, id, "second-generation-differs", &cause, format!("block {id} of the library's own output {:?} comes back as {:?} after being parsed and serialised again", a, b), case);
                            }
                        }
                    }
                }
                Ok(Err(e)) => v(l, "envelope", "own-output-rejected", &crate::props::c02::err_class(&e), format!("the library rejects its own serialisation of an accepted message ({label}): {}", e.to_string().chars().take(100).collect::<String>()), case),
                Err(_) => {}
            }
            // block 4 must be the text block we wrote (boundary independence): compare token tags
            if let (Some(b4x), Some(b4y)) = (get(&bx, "4"), get(&by, "4")) {
                let tx: Vec<String> = tok::tokenize(&b4x).fields.iter().map(|t| t.tag.clone()).collect();
                let ty: Vec<String> = tok::tokenize(&b4y).fields.iter().map(|t| t.tag.clone()).collect();
                if tx != ty {
                    v(l, "4", "boundary-or-content-changed", label.split(':').next().unwrap_or("-"), format!("block 4 fields differ between input and output ({label})"), case);
                }
            }
        }
        Case::Malformed { label, block, text } => {
            let stratum = format!("malformed/{block}");
            match guard(|| SwiftParser::parse_auto(text)) {
                Ok(Ok(_)) => {
                    l.eval(&stratum, "accepted", true, hash_bytes2("mf", text));
                    v(l, block, "malformed-accepted", label, format!("a block {block} that is malformed ({label}) is accepted"), case);
                }
                Ok(Err(_)) => l.eval(&stratum, "rejected", true, hash_bytes2("mf", text)),
                Err(_) => l.eval(&stratum, "panic(C07)", false, 0),
            }
        }
    }
}

pub fn run(cfg: &Config) -> i32 {
    let started = std::time::Instant::now();
    let cases = build_cases(cfg);
    run_cases(cfg, started, cases)
}

/// Every envelope text of this check (well-formed and malformed): also fed to C07, where a panic is the violation
pub fn envelope_texts(cfg: &Config) -> Vec<String> {
    build_cases(cfg).into_iter().map(|c| match c { Case::WellFormed { text, .. } | Case::Malformed { text, .. } => text }).collect()
}

fn build_cases(cfg: &Config) -> Vec<Case> {
    let c = Corpus::load(&cfg.verif_dir);
    // one valid block 4 per type (first corpus entry, rotated by seed)
    let mut bodies: Vec<(String, String)> = Vec::new();
    for m in crate::registry::MESSAGES {
        let es = c.of_type(m.code);
        if es.is_empty() {
            continue;
        }
        let e = es[cfg.seed as usize % es.len()];
        if let Some(b4) = corpus::block4_of(&e.text) {
            bodies.push((m.code.to_string(), tok::render(&tok::tokenize(&b4).fields, false, false)));
        }
    }
    let mut cases: Vec<Case> = Vec::new();
    let mut r = Rng::new(cfg.seed, "c10", 0);
    let nb = bodies.len();
    // (1) all subsets of the 13 block-3 tags (exhaustive in thorough; every single, every pair and 600 random in quick)
    let mut subsets: Vec<u32> = Vec::new();
    if true {
        subsets.extend(0..(1u32 << 13));
    } else {
        subsets.push(0);
        subsets.push((1 << 13) - 1);
        for i in 0..13 {
            subsets.push(1 << i);
            for j in i + 1..13 {
                subsets.push((1 << i) | (1 << j));
            }
        }
        for _ in 0..600 {
            subsets.push((r.next() & 0x1fff) as u32);
        }
    }
    for (si, s) in subsets.iter().enumerate() {
        let (mt, b4) = &bodies[si % nb];
        let mut b3 = String::new();
        for (i, t) in B3_TAGS.iter().enumerate() {
            if s & (1 << i) != 0 {
                b3.push_str(&format!("{{{t}:{}}}", b3_value(t, si + i)));
            }
        }
        let b3o = if *s == 0 { None } else { Some(b3.as_str()) };
        let b2 = if si % 2 == 0 { block2_input(mt, si, [17, 18, 21][si % 3]) } else { block2_output(mt, si, [46, 47][si % 2]) };
        let text = assemble(&block1(si, si % 5 == 0), &b2, b3o, b4, Some(&format!("{{CHK:{}}}", b5_value("CHK", si))));
        cases.push(Case::WellFormed { label: format!("block3-subset:{s:013b}"), text });
    }
    // (1b) every block-3 tag alone with values at its minimum and maximum documented length
    for (ti, t) in B3_TAGS.iter().enumerate() {
        for (lab, val) in b3_boundary_values(t) {
            let (mt, b4) = &bodies[ti % nb];
            for output in [false, true] {
                let b2 = if output { block2_output(mt, ti, 47) } else { block2_input(mt, ti, 17) };
                let b3 = format!("{{{t}:{val}}}");
                let text = assemble(&block1(ti, false), &b2, Some(&b3), b4, Some("{CHK:123456789ABC}"));
                cases.push(Case::WellFormed { label: format!("block3-boundary:{t}:{lab}"), text });
            }
        }
    }
    // (2) all subsets of the 8 block-5 tags
    for s in 0u32..256 {
        let (mt, b4) = &bodies[s as usize % nb];
        let mut b5 = String::new();
        for (i, t) in B5_TAGS.iter().enumerate() {
            if s & (1 << i) != 0 {
                b5.push_str(&format!("{{{t}:{}}}", b5_value(t, s as usize + i)));
            }
        }
        let b5o = if s == 0 { None } else { Some(b5.as_str()) };
        let text = assemble(&block1(s as usize, false), &block2_input(mt, s as usize, 17), None, b4, b5o);
        cases.push(Case::WellFormed { label: format!("block5-subset:{s:08b}"), text });
    }
    // (2b) order as received: every ordered pair of block-5 tags and of block-3 tags, and the full sets reversed
    // (the network writes MAC before CHK; the library's own order is another one)
    {
        let mut k = 0usize;
        for a in B5_TAGS.iter() {
            for b in B5_TAGS.iter() {
                if a == b {
                    continue;
                }
                k += 1;
                let (mt, b4) = &bodies[k % nb];
                let b5 = format!("{{{a}:{}}}{{{b}:{}}}", b5_value(a, k), b5_value(b, k + 1));
                cases.push(Case::WellFormed { label: format!("block5-order:{a},{b}"), text: assemble(&block1(k, false), &block2_input(mt, k, 17), None, b4, Some(&b5)) });
            }
        }
        let rev5: String = B5_TAGS.iter().rev().enumerate().map(|(i, t)| format!("{{{t}:{}}}", b5_value(t, i))).collect();
        let (mt, b4) = &bodies[0];
        cases.push(Case::WellFormed { label: "block5-order:all-reversed".into(), text: assemble(&block1(1, false), &block2_input(mt, 1, 17), None, b4, Some(&rev5)) });
        for a in B3_TAGS.iter() {
            for b in B3_TAGS.iter() {
                if a == b {
                    continue;
                }
                k += 1;
                let (mt, b4) = &bodies[k % nb];
                let b3 = format!("{{{a}:{}}}{{{b}:{}}}", b3_value(a, k), b3_value(b, k + 1));
                cases.push(Case::WellFormed { label: format!("block3-order:{a},{b}"), text: assemble(&block1(k, false), &block2_input(mt, k, 17), Some(&b3), b4, None) });
            }
        }
    }
    // (2c) blocks 3 and 5 present but empty, alone and together, under both header directions
    for (k, (b3, b5)) in [(Some(""), None), (None, Some("")), (Some(""), Some("")), (Some(""), Some("{CHK:123456789ABC}")), (Some("{108:REF}"), Some(""))].into_iter().enumerate() {
        for output in [false, true] {
            let (mt, b4) = &bodies[k % nb];
            let b2 = if output { block2_output(mt, k, 47) } else { block2_input(mt, k, 17) };
            cases.push(Case::WellFormed { label: format!("present-but-empty:b3={:?}:b5={:?}", b3, b5), text: assemble(&block1(k, false), &b2, b3, b4, b5) });
        }
    }
    // (3) header shapes x every type
    for (bi, (mt, b4)) in bodies.iter().enumerate() {
        for k in 0..cfg.tier.pick(20usize, 300usize) {
            let kk = bi * 100 + k;
            for len in [17usize, 18, 21] {
                cases.push(Case::WellFormed { label: format!("input-header:{len}"), text: assemble(&block1(kk, k % 2 == 0), &block2_input(mt, kk, len), None, b4, None) });
            }
            for len in [46usize, 47] {
                cases.push(Case::WellFormed { label: format!("output-header:{len}"), text: assemble(&block1(kk, k % 2 == 1), &block2_output(mt, kk, len), Some(&format!("{{108:{}}}", b3_value("108", kk))), b4, Some(&format!("{{CHK:{}}}{{TNG:}}", b5_value("CHK", kk)))) });
            }
        }
    }
    // (4) boundary independence: marker look-alikes inside values (z-charset allows '{' in 77T)
    if let Some((_, b103)) = bodies.iter().find(|(m, _)| m == "103") {
        let toks = tok::tokenize(b103).fields;
        for (lab, inner) in [("77T-contains-{5:", "/NARR/TEXT {5: MORE"), ("77T-contains-{3:", "/NARR/TEXT {3: MORE"), ("77T-contains-{4:", "/NARR/TEXT {4: MORE"), ("77T-contains-{2:", "/NARR/TEXT {2: MORE"), ("77T-contains-{1:", "/NARR/TEXT {1: MORE")] {
            let mut fs: Vec<tok::Token> = toks.iter().filter(|t| t.tag != "77T").cloned().collect();
            fs.push(tok::Token { tag: "77T".into(), content: inner.to_string() });
            let b4 = tok::render(&fs, false, false);
            for with_b3 in [false, true] {
                for with_b5 in [false, true] {
                    let text = assemble(
                        &block1(7, false),
                        &block2_input("103", 7, 17),
                        if with_b3 { Some("{108:REALMUR}") } else { None },
                        &b4,
                        if with_b5 { Some("{CHK:123456789ABC}") } else { None },
                    );
                    cases.push(Case::WellFormed { label: format!("{lab}:b3={with_b3}:b5={with_b5}"), text });
                }
            }
        }
        // marker look-alikes without braces inside ordinary values
        for (lab, tag, inner) in [("70-contains-minus-line", "70", "LINE ONE\n-NOT A TERMINATOR\nLINE THREE"), ("70-contains-colon-tag", "70", "SEE FIELD :20: ABOVE"), ("72-contains-4:", "72", "/INS/4:X 5:Y 3:Z")] {
            let mut fs = toks.clone();
            if let Some(i) = fs.iter().position(|t| t.tag == tag) {
                fs[i].content = inner.to_string();
            } else {
                let at = fs.iter().position(|t| t.tag == "71A").unwrap_or(fs.len());
                if tag == "70" {
                    fs.insert(at, tok::Token { tag: tag.into(), content: inner.to_string() });
                } else {
                    fs.push(tok::Token { tag: tag.into(), content: inner.to_string() });
                }
            }
            let text = assemble(&block1(3, false), &block2_input("103", 3, 17), Some("{108:REALMUR}"), &tok::render(&fs, false, false), Some("{CHK:123456789ABC}"));
            cases.push(Case::WellFormed { label: lab.to_string(), text });
        }
    }
    // (5) malformed headers: length +-1, +-2; direction; character classes at fixed positions
    for (bi, (mt, b4)) in bodies.iter().enumerate().take(cfg.tier.pick(6, 30)) {
        let b1 = block1(bi, false);
        let b2i = block2_input(mt, bi, 17);
        let b2o = block2_output(mt, bi, 47);
        for (lab, nb1) in [("len-1", b1[..24].to_string()), ("len-2", b1[..23].to_string()), ("len+1", format!("{b1}0")), ("len+2", format!("{b1}00")), ("empty", String::new())] {
            cases.push(Case::Malformed { label: format!("length:{lab}"), block: "1".into(), text: assemble(&nb1, &b2i, None, b4, None) });
        }
        for (lab, nb1) in [("session-non-digit", format!("{}AB{}", &b1[..15], &b1[17..])), ("sequence-non-digit", format!("{}XYZ{}", &b1[..19], &b1[22..])), ("service-non-digit", format!("{}Q1{}", &b1[..1], &b1[3..]))] {
            cases.push(Case::Malformed { label: format!("class:{lab}"), block: "1".into(), text: assemble(&nb1, &b2i, None, b4, None) });
        }
        for (lab, nb2) in [("len-1", b2i[..16].to_string()), ("len-2", b2i[..15].to_string()), ("len+2(19)", format!("{b2i}12")), ("len+3(20)", format!("{b2i}123")), ("len+5(22)", format!("{b2i}12345")), ("direction-X", format!("X{}", &b2i[1..])), ("direction-lower-i", format!("i{}", &b2i[1..])), ("type-non-digit", format!("I1A3{}", &b2i[4..])), ("empty", String::new())] {
            cases.push(Case::Malformed { label: format!("input:{lab}"), block: "2".into(), text: assemble(&b1, &nb2, None, b4, None) });
        }
        for (lab, nb2) in [("len-1", b2o[..45].to_string()), ("len-2", b2o[..44].to_string()), ("len+1", format!("{b2o}X")), ("len+2", format!("{b2o}XY")), ("time-non-digit", format!("{}AB{}", &b2o[..4], &b2o[6..])), ("date-non-digit", format!("{}XX{}", &b2o[..8], &b2o[10..]))] {
            cases.push(Case::Malformed { label: format!("output:{lab}"), block: "2".into(), text: assemble(&b1, &nb2, None, b4, None) });
        }
    }
    cases
}

fn run_cases(cfg: &Config, started: std::time::Instant, cases: Vec<Case>) -> i32 {
    let n = cases.len() as u64;
    let total = par_for(cfg, n, |i, l| {
        let case = &cases[i as usize];
        let lab = match case {
            Case::WellFormed { label, .. } => format!("wf:{}", label.split(':').next().unwrap_or("")),
            Case::Malformed { label, block, .. } => format!("mf:{block}:{}", label.split(':').next().unwrap_or("")),
        };
        if l.want_sample(&lab) {
            l.sample(&lab, serde_json::to_value(case).unwrap());
        }
        judge(case, l);
    });
    let mut rep = Report::default();
    rep.exhaustive = true;
    rep.rule = "cases = envelopes generated from the documented components around a valid block 4 of each of the 30 types: all 8192 subsets of the 13 block-3 tags, all 256 subsets of the 8 block-5 tags, input headers of 17/18/21 and output headers of 46/47 characters with 8- and 11-character BICs, values containing block-marker look-alikes (z-charset '{' in 77T), and near-miss malformed headers (length +-1/+-2, direction, non-digits at fixed positions). Non-trivial = the parser reached a verdict; distinct = distinct message texts".into();
    rep.assumptions = vec!["reference reader: brace-structure splitter of tok.rs; tag order inside blocks 3 and 5 is not judged".into(), "malformed classes are limited to wrong total length, direction outside {I,O} and wrong character class at a fixed-format position".into()];
    rep.required_strata = vec!["well-formed/block3-subset".into(), "well-formed/block5-subset".into(), "well-formed/input-header".into(), "well-formed/output-header".into(), "malformed/1".into(), "malformed/2".into()];
    rep.min_evals = 1000;
    let _ = json!(null);
    finish(cfg, started, total, rep)
}

pub fn replay(_cfg: &Config, case: &Value) -> Local {
    let mut l = Local::default();
    let c: Case = serde_json::from_value(case.clone()).expect("C10 case");
    judge(&c, &mut l);
    l
}
