//! C03 — Every well-formed message of a supported type is accepted and reproduced exactly.
//!
//! G-valid: messages are assembled from the independent layout specification (spec/layout.rs) with
//! exemplar contents of the documented field formats (spec/exemplar.rs), each first turned into
//! the library's own canonical spelling at field level. Oracles:
//!   * accepted (rejection of a well-formed message is a violation),
//!   * byte-exact reproduction by to_mt_string (spec-free),
//!   * placement + components: for every written field occurrence the JSON object found under its
//!     tag key in its sequence occurrence must expose exactly what was written — every non-null
//!     leaf occurs in the written content (strings verbatim, numbers by value, ISO dates as
//!     YYMMDD) and nothing alphanumeric of the content is left uncovered.
//! Key: `C03|MT<type>|<clause>|<tag path>`.

use crate::jsonu::canon_num;
use crate::monitor::*;
use crate::rng::{Rng, hash_bytes2};
use crate::spec::layout::{self, Gen, GenField, GenOptions, Layout};
use crate::spec::{self, Canon};
use crate::tok::{self, Token};
use serde::{Deserialize, Serialize};
use serde_json::{Value, json};

#[derive(Clone, Debug, Serialize, Deserialize)]
pub struct WField {
    pub tag: String,
    pub content: String,
    pub seq_index: Option<usize>,
    pub in_object: bool,
    pub occurrence: usize,
}

#[derive(Clone, Debug, Serialize, Deserialize)]
pub struct Case {
    pub mt: String,
    pub shape: String,
    pub fields: Vec<WField>,
}

fn v(l: &mut Local, mt: &str, clause: &str, path: &str, what: String, case: &Case) {
    l.violation(format!("C03|MT{mt}|{clause}|{path}"), what, || serde_json::to_value(case).unwrap());
}

/// JSON value holding the written occurrence, or None if it is not where it belongs
pub fn locate<'a>(mt: &str, root: &'a Value, f: &WField) -> Option<&'a Value> {
    let container = if let Some(i) = f.seq_index {
        root.get("#")?.get(i)?
    } else if f.in_object {
        root.get("#")?
    } else {
        root
    };
    let num = &f.tag[..2];
    let special: Option<String> = match (mt, f.tag.as_str()) {
        ("920", "34F") => Some(format!("34F_{}", f.occurrence + 1)),
        ("942", "34F") => Some(if f.occurrence == 0 { "34F_debit".into() } else { "34F_credit".into() }),
        _ => None,
    };
    let found: Option<&Value> = if let Some(k) = special {
        container.get(&k)
    } else if let Some(x) = container.get(&f.tag) {
        Some(x)
    } else {
        // enum stored under the bare number (25, 60, 62): the option must be visible inside
        container.get(num)
    };
    let val = match found {
        Some(x) if !x.is_null() => x,
        _ => {
            // MT942: an :86: that directly follows the last :61: is statement-line information by the
            // standard's own reading; the generator cannot tell the two apart, so either place is right
            if mt == "942" && f.tag == "86" && f.seq_index.is_none() {
                return root.get("#")?.as_array()?.last()?.get("86").filter(|x| !x.is_null());
            }
            return None;
        }
    };
    match val {
        Value::Array(a) => a.get(f.occurrence),
        _ => {
            if f.occurrence == 0 || matches!((mt, f.tag.as_str()), ("920", "34F") | ("942", "34F")) {
                Some(val)
            } else {
                None
            }
        }
    }
}

fn leaves(v: &Value, out: &mut Vec<Value>) {
    match v {
        Value::Object(m) => m.values().for_each(|x| leaves(x, out)),
        Value::Array(a) => a.iter().for_each(|x| leaves(x, out)),
        Value::Null | Value::Bool(_) => {}
        other => out.push(other.clone()),
    }
}

/// Coverage oracle: Ok(()) or Err(description)
pub fn covers(content: &str, json: &Value) -> Result<(), String> {
    let text: Vec<char> = tok::normalize_newlines(content).chars().collect();
    let mut used = vec![false; text.len()];
    let mut ls = Vec::new();
    leaves(json, &mut ls);
    // longest strings first so that short codes do not steal spans of longer values
    ls.sort_by_key(|x| std::cmp::Reverse(x.as_str().map(|s| s.len()).unwrap_or_else(|| x.to_string().len())));
    let find = |needle: &str, used: &Vec<bool>| -> Option<usize> {
        let n: Vec<char> = needle.chars().collect();
        if n.is_empty() || n.len() > text.len() {
            return None;
        }
        (0..=text.len() - n.len()).find(|&i| (0..n.len()).all(|j| text[i + j] == n[j] && !used[i + j]))
    };
    for leaf in &ls {
        match leaf {
            Value::String(s) => {
                if s.is_empty() {
                    continue;
                }
                let mut cands: Vec<String> = vec![s.clone()];
                if let Some(x) = s.strip_prefix('/') {
                    cands.push(x.to_string());
                }
                // ISO date -> YYMMDD
                let b = s.as_bytes();
                if b.len() == 10 && b[4] == b'-' && b[7] == b'-' {
                    cands.push(format!("{}{}{}", &s[2..4], &s[5..7], &s[8..10]));
                }
                let mut hit = None;
                for c in &cands {
                    if let Some(i) = find(c, &used) {
                        hit = Some((i, c.chars().count()));
                        break;
                    }
                }
                match hit {
                    Some((i, n)) => (i..i + n).for_each(|j| used[j] = true),
                    None => return Err(format!("leaf {:?} is not part of the written content", s)),
                }
            }
            Value::Number(n) => {
              // the sign of a negative rate is written as a letter (37H "N"), so numbers are matched by magnitude
              let want = canon_num(n.to_string().trim_start_matches('-'));
              let mut done = false;
              // three passes: tokens spelled without leading zeros first (so that an amount is not
              // matched to digits of a date such as "0727"), then any token, then suffixes of tokens
              for (allow_suffix, allow_leading_zero) in [(false, false), (false, true), (true, true)] {
                if done {
                    break;
                }
                // numeric tokens of the content
                let mut i = 0;
                let mut hit = None;
                while i < text.len() {
                    if text[i].is_ascii_digit() && !used[i] {
                        let st = i;
                        while i < text.len() && text[i].is_ascii_digit() && !used[i] {
                            i += 1;
                        }
                        let mut en = i;
                        if i < text.len() && text[i] == ',' && !used[i] {
                            let mut j = i + 1;
                            while j < text.len() && text[j].is_ascii_digit() && !used[j] {
                                j += 1;
                            }
                            en = j;
                        }
                        // the token, and every suffix of its integer part (a number glued to a preceding date)
                        let tokstr: String = text[st..en].iter().collect();
                        for cut in 0..(if allow_suffix { i - st } else { 1 }) {
                            let t: String = tokstr.chars().skip(cut).collect();
                            let lz = t.len() > 1 && t.starts_with('0') && !t.starts_with("0,");
                            if (allow_leading_zero || !lz) && canon_num(&t.replace(',', ".")) == want {
                                hit = Some((st + cut, en));
                                break;
                            }
                        }
                        if hit.is_none() && en > i {
                            // integer part only (e.g. "12/345": handled by tokens; "5USD": handled above)
                            let t: String = text[st..i].iter().collect();
                            let lz = t.len() > 1 && t.starts_with('0');
                            if (allow_leading_zero || !lz) && canon_num(&t) == want {
                                hit = Some((st, i));
                            }
                        }
                        if hit.is_some() {
                            break;
                        }
                        i = en.max(i + 0);
                        if i == st {
                            i += 1;
                        }
                    } else {
                        i += 1;
                    }
                }
                match hit {
                    Some((a, b)) => {
                        (a..b).for_each(|j| used[j] = true);
                        done = true;
                    }
                    None => {
                        if allow_suffix {
                            return Err(format!("numeric leaf {} has no token of that value in the written content", n));
                        }
                    }
                }
              }
            }
            _ => {}
        }
    }
    // a `true` flag in the model accounts for the sign letter in front of a number (37H "N")
    fn count_true(v: &Value) -> usize {
        match v {
            Value::Bool(true) => 1,
            Value::Object(m) => m.values().map(count_true).sum(),
            Value::Array(a) => a.iter().map(count_true).sum(),
            _ => 0,
        }
    }
    for _ in 0..count_true(json) {
        if let Some(i) = (0..text.len().saturating_sub(1)).find(|&i| text[i] == 'N' && !used[i] && text[i + 1].is_ascii_digit()) {
            used[i] = true;
        }
    }
    // line numbers of numbered name-and-address lines ("1/NAME") may be implied by line order in
    // the model: a digit at a line start followed by '/' is representation, not a component value
    for i in 0..text.len() {
        let at_line_start = i == 0 || text[i - 1] == '\n';
        if at_line_start && text[i].is_ascii_digit() && i + 1 < text.len() && text[i + 1] == '/' {
            used[i] = true;
        }
    }
    let residual: String = text.iter().zip(&used).filter(|(c, u)| !**u && c.is_alphanumeric()).map(|(c, _)| *c).collect();
    if !residual.is_empty() {
        return Err(format!("written characters {:?} are not exposed by any component", residual.chars().take(30).collect::<String>()));
    }
    Ok(())
}

pub fn judge(_cfg: &Config, case: &Case, l: &mut Local) {
    let mt = case.mt.as_str();
    let ops = crate::registry::msg(mt).expect("type");
    let stratum = format!("MT{mt}/{}", case.shape);
    let toks: Vec<Token> = case.fields.iter().map(|f| Token { tag: f.tag.clone(), content: f.content.clone() }).collect();
    let text = tok::render(&toks, false, false);
    let body = match guard(|| (ops.parse_b4)(&text)) {
        Ok(Ok(b)) => b,
        Ok(Err(e)) => {
            l.eval(&stratum, "rejected", true, hash_bytes2(mt, &text));
            let cls = super::c02::err_class(&e);
            v(l, mt, "rejected", &cls, format!("MT{mt}: a message assembled according to the documented layout is rejected: {}", e.to_string().chars().take(120).collect::<String>()), case);
            return;
        }
        Err(_) => {
            l.eval(&stratum, "panic(C07)", false, 0);
            return;
        }
    };
    l.eval(&stratum, "accepted", true, hash_bytes2(mt, &text));
    if let Ok(y) = guard(|| body.to_mt()) {
        let y = tok::normalize_newlines(&y);
        if y != text {
            let ty = tok::tokenize(&y);
            let k = toks.iter().zip(&ty.fields).position(|(a, b)| a != b).unwrap_or(toks.len().min(ty.fields.len()));
            let a = toks.get(k).map(|t| t.tag.as_str()).unwrap_or("<end>");
            let b = ty.fields.get(k).map(|t| t.tag.as_str()).unwrap_or("<end>");
            v(l, mt, "not-reproduced", &format!("{a}->{b}"), format!("MT{mt}: to_mt_string does not reproduce the text block byte for byte (first difference at field {k}: wrote {a}, got {b})"), case);
        }
    }
    if let Ok(Ok(j)) = guard(|| body.json()) {
        for f in &case.fields {
            match locate(mt, &j, f) {
                None => {
                    v(l, mt, "misplaced", &f.tag, format!("MT{mt}: written field {} (sequence {:?}, occurrence {}) is not found under its tag in the parsed model", f.tag, f.seq_index, f.occurrence), case);
                }
                Some(val) => {
                    if let Err(why) = covers(&f.content, val) {
                        v(l, mt, "component", &f.tag, format!("MT{mt}: field {} in the model does not expose exactly what was written: {why}", f.tag), case);
                    }
                }
            }
        }
    }
}

/// Build the written fields of one shape; None if an exemplar cannot be canonicalised (reported separately)
pub fn build(l: &Layout, g: &mut Gen, local: &mut Local, shape: &str) -> Option<Case> {
    let gf: Vec<GenField> = g.message(l);
    build_from(l, gf, local, shape)
}

pub fn build_from(l: &Layout, gf: Vec<GenField>, local: &mut Local, shape: &str) -> Option<Case> {
    let mut fields = Vec::new();
    for f in gf {
        match spec::canonical(&f.tag, &f.content) {
            Canon::Ok(c) => fields.push(WField { tag: f.tag, content: c, seq_index: f.seq_index, in_object: f.in_object, occurrence: f.occurrence }),
            Canon::Rejected(e) => {
                local.violation(
                    format!("C03|field|exemplar-rejected|{}", f.tag),
                    format!("field {}: a content in the documented format is rejected by the field parser: {}", f.tag, e.chars().take(100).collect::<String>()),
                    || json!({"tag": f.tag, "content": f.content}),
                );
                return None;
            }
            Canon::NotFixpoint => {
                local.count(&format!("exemplar-not-fixpoint:{}", f.tag), 1);
                local.violation(
                    format!("C03|field|not-a-fixed-point|{}", f.tag),
                    format!("field {}: the library's own serialisation of a content in the documented format comes back under another tag, is not accepted again or serialises differently the second time", f.tag),
                    || json!({"tag": f.tag, "content": f.content}),
                );
                return None;
            }
            Canon::BlankLine(b) => {
                local.violation(
                    format!("C03|field|serialised-with-a-blank-line|{}", f.tag),
                    format!("field {}: a content in the documented format without any empty line is serialised as {:?}, which leaves a blank line in the text block", f.tag, b.chars().take(60).collect::<String>()),
                    || json!({"tag": f.tag, "content": f.content}),
                );
                return None;
            }
            Canon::Panic => return None,
        }
    }
    Some(Case { mt: l.mt.to_string(), shape: shape.to_string(), fields })
}

pub fn run(cfg: &Config) -> i32 {
    let started = std::time::Instant::now();
    let layouts = layout::layouts();
    // work list: (layout index, shape label, seed index)
    let mut work: Vec<(usize, String, u64)> = Vec::new();
    let random_per_type = cfg.tier.pick(3000u64, 60000u64);
    for (li, l) in layouts.iter().enumerate() {
        for v in 0..6 {
            work.push((li, "minimal".into(), v));
            work.push((li, "maximal".into(), v));
        }
        for num in layout::optional_numbers(l) {
            for v in 0..3 {
                work.push((li, format!("only-optional:{num}"), v));
            }
        }
        for (num, opt) in layout::option_pairs(l) {
            for v in 0..4 {
                work.push((li, format!("option:{num}{opt}"), v));
                work.push((li, format!("option-in-maximal:{num}{opt}"), v));
            }
        }
        for v in 0..random_per_type {
            work.push((li, "random".into(), v));
        }
        if l.mt == "204" {
            // MT204 is rejected in its documented order (known finding): exercise the rest of the
            // oracle on the order the library itself uses (19 before 20), under its own stratum
            for v in 0..random_per_type / 2 {
                work.push((li, "random+liborder19first".into(), v));
            }
        }
    }
    // spec-conforming substitution: in the maximal message of each type, every field in turn gets
    // every structural candidate of its documented format that the reference acceptor classifies as
    // conforming (minimal / maximal instance, each component at its minimum and maximum length, the
    // same with the optional rest absent); the message stays well-formed, so it must be accepted
    let specs = crate::spec::fieldfmt::specs();
    // (layout, forced option, field index, content, class): the maximal message once as the generator picks its
    // options, then once per option letter of every field of the layout with that letter forced
    let mut subst: Vec<(usize, Option<(String, String)>, usize, String, String)> = Vec::new();
    fn lettered(nodes: &[crate::spec::layout::Node], out: &mut Vec<(String, String)>) {
        use crate::spec::layout::Node;
        for n in nodes {
            match n {
                Node::Field(f) => f.opts.iter().filter(|o| f.opts.len() > 1 && !o.is_empty()).for_each(|o| out.push((f.num.to_string(), o.to_string()))),
                Node::Alt(a) => a.iter().for_each(|f| f.opts.iter().filter(|o| !o.is_empty()).for_each(|o| out.push((f.num.to_string(), o.to_string())))),
                Node::Seq { items, .. } => lettered(items, out),
            }
        }
    }
    let mut seen_tags = std::collections::BTreeSet::new();
    for (li, l) in layouts.iter().enumerate() {
        let mut forced: Vec<Option<(String, String)>> = vec![None];
        let mut ls = Vec::new();
        lettered(&l.nodes, &mut ls);
        ls.sort();
        ls.dedup();
        forced.extend(ls.into_iter().map(Some));
      for force in forced {
        let mut r0 = Rng::new(0, &format!("c03-subst:{}", l.mt), 0);
        let force_include = force.as_ref().map(|f| f.0.clone());
        let mut g0 = Gen { r: &mut r0, counter: 7, mt: l.mt, opt: GenOptions { optional_per_mille: 500, max_repeat: 2, max_seq: 2, maximal: true, minimal: false }, force_option: force.clone(), force_include };
        let gf = g0.message(l);
        for (fi, f) in gf.iter().enumerate() {
            if let Some((n, o)) = &force
                && f.tag != format!("{n}{o}")
            {
                continue;
            }
            if !seen_tags.insert((li, f.tag.clone())) {
                continue;
            }
            let Some(spec) = specs.iter().find(|s| s.ty == format!("Field{}", f.tag) || s.ty == format!("Field{}NoOption", f.tag)) else { continue };
            let mut rr = Rng::new(0, "c03-subst-cand", fi as u64);
            for c in crate::spec::fieldfmt::candidates(spec, 1, &mut rr, 0) {
                let structural = matches!(c.class.as_str(), "minimal" | "maximal") || c.class.starts_with("len=min") || c.class.starts_with("len=max,") || c.class == "len=max" || c.class.starts_with("zero=") || c.class.starts_with("date=") || c.class.starts_with("ccy=") || c.class == "class=blank@last" || c.class == "class=blank@middle";
                if !structural || c.content.contains('\r') || c.content.lines().any(|x| x.starts_with(':') || x.starts_with('-')) {
                    continue;
                }
                if crate::spec::fieldfmt::classify(spec, &c.content) == crate::spec::fieldfmt::Verdict::Accept {
                    subst.push((li, force.clone(), fi, c.content, c.class));
                }
            }
        }
      }
    }
    let n0 = work.len() as u64;
    let n = n0 + subst.len() as u64;
    let total = par_for(cfg, n, |i, local| {
        if i >= n0 {
            let (li, force, fi, content, class) = &subst[(i - n0) as usize];
            let l = &layouts[*li];
            let mut r0 = Rng::new(0, &format!("c03-subst:{}", l.mt), 0);
            let force_include = force.as_ref().map(|f| f.0.clone());
            let mut g0 = Gen { r: &mut r0, counter: 7, mt: l.mt, opt: GenOptions { optional_per_mille: 500, max_repeat: 2, max_seq: 2, maximal: true, minimal: false }, force_option: force.clone(), force_include };
            let mut gf = g0.message(l);
            gf[*fi].content = content.clone();
            let shape = format!("spec-substitution:{}:{}", gf[*fi].tag, class.split(',').next().unwrap_or(""));
            if let Some(case) = build_from(l, gf, local, &shape) {
                judge(cfg, &case, local);
            }
            return;
        }
        let (li, shape, vi) = &work[i as usize];
        let l = &layouts[*li];
        let mut r = Rng::new(cfg.seed, &format!("c03:{}:{shape}", l.mt), *vi);
        let mut opt = GenOptions { optional_per_mille: 500, max_repeat: 3, max_seq: 3, maximal: false, minimal: false };
        let mut force_option = None;
        let mut force_include = None;
        if shape == "minimal" {
            opt.minimal = true;
        } else if shape == "maximal" {
            opt.maximal = true;
        } else if let Some(num) = shape.strip_prefix("only-optional:") {
            opt.minimal = true;
            force_include = Some(num.to_string());
        } else if let Some(no) = shape.strip_prefix("option-in-maximal:") {
            opt.maximal = true;
            force_option = Some((no[..2].to_string(), no[2..].to_string()));
        } else if let Some(no) = shape.strip_prefix("option:") {
            opt.optional_per_mille = 300;
            force_option = Some((no[..2].to_string(), no[2..].to_string()));
            force_include = Some(no[..2].to_string());
        } else {
            opt.optional_per_mille = [150, 500, 850][(*vi % 3) as usize];
            opt.max_seq = [1, 2, 4, 11][(*vi % 4) as usize];
        }
        let mut g = Gen { r: &mut r, counter: (*vi as usize) * 50, mt: l.mt, opt, force_option, force_include };
        let Some(mut case) = build(l, &mut g, local, shape) else { return };
        if shape.ends_with("+liborder19first") && case.fields.len() >= 2 && case.fields[1].tag == "19" {
            case.fields.swap(0, 1);
        }
        let kind = shape.split(':').next().unwrap_or("");
        if local.want_sample(&format!("MT{}/{kind}", l.mt)) {
            let toks: Vec<Token> = case.fields.iter().map(|f| Token { tag: f.tag.clone(), content: f.content.clone() }).collect();
            local.sample(&format!("MT{}/{kind}", l.mt), json!({"shape": shape, "text": tok::render(&toks, false, false)}));
        }
        judge(cfg, &case, local);
    });
    let mut rep = Report::default();
    rep.rule = "cases = messages generated from the independent layout table of the 30 types: minimal, maximal, each optional field alone, every documented option letter of every position (alone and inside a maximal message), and seeded random shapes (optional subsets at three densities, 1-11 sequence repetitions, repeated fields), contents from documented-format exemplars in the library's own canonical spelling with boundary lengths. Non-trivial = the parser ran on the message; distinct = distinct message texts".into();
    rep.assumptions = vec![
        "trusted base: spec/layout.rs (SR2025 layouts restricted to the options the crate's model types document) and spec/exemplar.rs (documented field formats)".into(),
        "component oracle is a coverage check between written content and JSON leaves (strings verbatim, numbers by value, ISO dates as YYMMDD)".into(),
    ];
    rep.required_strata = layouts.iter().flat_map(|l| [format!("MT{}/minimal", l.mt), format!("MT{}/maximal", l.mt), format!("MT{}/random", l.mt)]).collect();
    rep.min_evals = 1000;
    finish(cfg, started, total, rep)
}

pub fn replay(cfg: &Config, case: &Value) -> Local {
    let mut l = Local::default();
    if case.get("fields").is_none() {
        // exemplar-rejected witness: {tag, content}
        let tag = case["tag"].as_str().unwrap_or("");
        let content = case["content"].as_str().unwrap_or("");
        if let Canon::Rejected(e) = spec::canonical(tag, content) {
            l.violation(format!("C03|field|exemplar-rejected|{tag}"), format!("field {tag}: documented-format content rejected: {e}"), || case.clone());
        }
        return l;
    }
    let c: Case = serde_json::from_value(case.clone()).expect("C03 case");
    judge(cfg, &c, &mut l);
    l
}
