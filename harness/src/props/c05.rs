//! C05 — Field parsers accept exactly their documented SWIFT format.
//!
//! Reference: spec/fieldfmt.rs — the documented format of each concrete field type restated in
//! SWIFT notation plus an interpreter that classifies any content three-valued (conforms /
//! certainly outside the format with the failing component and reason / not settled by the
//! documentation). Candidates are derived from the specification itself with a class label by
//! construction (every component at lengths 0, min-1, min, max, max+1, max+2; twelve character
//! classes at first / middle / last position; separators missing or doubled; embedded newlines;
//! line counts 0, max+1, max+2; empty lines; trailing characters; case), plus seeded random edits
//! and random strings over SWIFT and non-SWIFT alphabets.
//! Clauses: over-accept (a content certainly outside the format is accepted), over-reject (a
//! conforming content is rejected), not-conserved (an accepted content is not given back by
//! serialisation up to number / line-end formatting, i.e. a part was ignored or re-numbered).
//! Key: `C05|<FieldType>|<clause>|<component:reason or class>`.

use crate::monitor::*;
use crate::registry::field;
use crate::rng::{Rng, hash_bytes2};
use crate::spec::fieldfmt::{self, Candidate, Spec, Verdict};
use crate::tok;
use serde::{Deserialize, Serialize};
use serde_json::{Value, json};

#[derive(Clone, Debug, Serialize, Deserialize)]
pub struct Case {
    /// type whose parser is called
    pub ty: String,
    /// concrete type whose documented format applies (differs from `ty` for option families)
    pub spec_ty: String,
    pub variant: Option<String>,
    pub content: String,
    pub component: String,
    pub class: String,
}

fn v(l: &mut Local, ty: &str, clause: &str, detail: &str, what: String, case: &Case) {
    l.violation(format!("C05|{ty}|{clause}|{detail}"), what, || serde_json::to_value(case).unwrap());
}

pub fn judge(specs: &[Spec], case: &Case, l: &mut Local) {
    let Some(spec) = specs.iter().find(|s| s.ty == case.spec_ty) else { return };
    let ops = field(&case.ty).expect("field type");
    let verdict = fieldfmt::classify(spec, &case.content);
    let stratum = format!("{}:{}", case.ty, case.class.split('=').next().unwrap_or(""));
    let r = match &case.variant {
        None => guard(|| (ops.parse)(&case.content)),
        Some(x) => guard(|| (ops.parse_variant)(&case.content, Some(x.as_str()), None)),
    };
    let r = match r {
        Ok(r) => r,
        Err(_) => {
            l.eval(&stratum, "panic(C07)", false, 0);
            return;
        }
    };
    let vname = match &verdict {
        Verdict::Accept => "conforms",
        Verdict::Reject(_) => "outside",
        Verdict::Unspecified(_) => "unsettled",
    };
    match r {
        Err(e) => {
            l.eval(&stratum, &format!("rejected/{vname}"), true, hash_bytes2(&case.ty, &case.content));
            if verdict == Verdict::Accept {
                // keyed by the candidate's own class (component : class), never by the library's wording
                let reason = format!("{}:{}", case.component, case.class);
                v(
                    l,
                    &case.ty,
                    "over-reject",
                    &reason,
                    format!("{} rejects a content that conforms to its documented format ({} / {}): {}", case.ty, case.component, case.class, e.to_string().chars().take(90).collect::<String>()),
                    case,
                );
            }
        }
        Ok(val) => {
            l.eval(&stratum, &format!("accepted/{vname}"), true, hash_bytes2(&case.ty, &case.content));
            if let Verdict::Reject(reason) = &verdict {
                // random edits and random strings usually break several things at once, so the reference's first
                // reason is arbitrary: they are keyed by their class only
                let random = case.class.starts_with("random");
                v(l, &case.ty, "over-accept", if random { "-:random" } else { reason.as_str() }, format!("{} accepts a content outside its documented format ({reason}; candidate class {} / {})", case.ty, case.component, case.class), case);
                return;
            }
            // conservation: the accepted content must come back
            if let Ok(s) = guard(|| val.to_swift())
                && let Some((_, body)) = tok::split_swift_string(&s)
            {
                if matches!(&verdict, Verdict::Unspecified(u) if matches!(u.as_str(), "trailing-newline" | "decimals-vs-currency" | "dot-separator" | "integer-without-comma" | "zero-amount" | "field61-reference-with-slash")) {
                    // number spelling and precision are judged by C06
                    return;
                }
                if ["many-decimals", "seven-decimals", "no-comma"].iter().any(|p| case.class.starts_with(p)) {
                    // candidates made for the number formatting checks of C02 / C06 / C08
                    return;
                }
                let a = super::c01::canon(&case.content);
                let b = super::c01::canon(&body);
                if a != b {
                    let (na, nb) = (tok::normalize_newlines(&case.content), body.clone());
                    let class = if na.trim_start_matches('/') == nb.trim_start_matches('/') {
                        "leading-slash"
                    } else if na.starts_with(nb.as_str()) {
                        "tail-dropped"
                    } else if nb.starts_with(na.as_str()) {
                        "tail-added"
                    } else if na.lines().count() != nb.lines().count() {
                        "line-count"
                    } else if na.to_uppercase() == nb.to_uppercase() {
                        "case"
                    } else if na.replace(' ', "") == nb.replace(' ', "") {
                        "blanks"
                    } else {
                        "other"
                    };
                    // Field25 without option: the library's canonical spelling carries a leading slash
                    // (pinned by its unit tests); adding it is formatting, not loss
                    if class == "leading-slash" && matches!(case.spec_ty.as_str(), "Field25NoOption") && nb.trim_start_matches('/') == na.as_str() {
                        return;
                    }
                    let why = match &verdict {
                        Verdict::Unspecified(u) => format!("unsettled:{u}"),
                        _ => "conforms".to_string(),
                    };
                    v(l, &case.ty, "not-conserved", &format!("{class}|{why}"), format!("{} accepts {:?} but serialises it as {:?} ({class})", case.ty, short(&case.content), short(&body)), case);
                }
            }
        }
    }
}

fn short(s: &str) -> String {
    s.chars().take(60).collect()
}

pub fn run(cfg: &Config) -> i32 {
    let started = std::time::Instant::now();
    let specs = fieldfmt::specs();
    let mut cases: Vec<Case> = Vec::new();
    let rounds = cfg.tier.pick(2usize, 12usize);
    let random_extra = cfg.tier.pick(60usize, 3000usize);
    for spec in &specs {
        for round in 0..rounds {
            let mut r = Rng::new(cfg.seed, &format!("c05:{}", spec.ty), round as u64);
            let cands: Vec<Candidate> = fieldfmt::candidates(spec, round * 3 + cfg.seed as usize, &mut r, if round == 0 { random_extra } else { 0 });
            for c in cands {
                cases.push(Case { ty: spec.ty.to_string(), spec_ty: spec.ty.to_string(), variant: None, content: c.content, component: c.component, class: c.class });
            }
        }
    }
    // option families: with the letter, the family must behave as the concrete option's format
    for (fam, base, opts) in super::c14::FAMILIES {
        for o in *opts {
            let concrete = if o.is_empty() { format!("Field{base}NoOption") } else { format!("Field{base}{o}") };
            let Some(spec) = specs.iter().find(|s| s.ty == concrete) else { continue };
            let mut r = Rng::new(cfg.seed, &format!("c05:{fam}:{o}"), 0);
            for c in fieldfmt::candidates(spec, cfg.seed as usize, &mut r, 0) {
                cases.push(Case { ty: fam.to_string(), spec_ty: concrete.clone(), variant: Some(o.to_string()), content: c.content, component: c.component, class: c.class });
            }
        }
    }
    let n = cases.len() as u64;
    let total = par_for(cfg, n, |i, l| {
        let case = &cases[i as usize];
        let lab = format!("{}:{}", case.ty, case.class.split('=').next().unwrap_or(""));
        if l.want_sample(&lab) && (i % 7 == 0) {
            l.sample(&lab, json!({"ty": case.ty, "content": case.content, "component": case.component, "class": case.class}));
        }
        judge(&specs, case, l);
    });
    let mut rep = Report::default();
    rep.extra.insert("field_specs".into(), json!(specs.len()));
    rep.rule = "cases = for each of the 89 concrete field types (and the 25 option families with each documented letter) every candidate derived from its documented format: canonical / minimal / maximal instance; each component at lengths 0, min-1, min, max, max+1, max+2; twelve character classes at first, middle and last position of each component; separator missing / doubled; embedded newline; each line missing, repeated beyond its maximum by 1 and 2; empty content, trailing / leading characters, extra line, empty line, CRLF, lower case; plus seeded random edits and random strings. Each candidate is classified by the reference acceptor and parsed by the library. Non-trivial = every candidate (the field parser ran); distinct = distinct (type, content) digests".into();
    rep.assumptions = vec![
        "trusted base: spec/fieldfmt.rs (documented formats restated in SWIFT notation, semantic checks for dates, times, BIC shape, code lists the documentation closes, amounts, slash rule)".into(),
        "not judged: trailing newline, integer amounts without comma, zero amounts, open code lists, offset hours 15-23, Field36 plausibility range".into(),
    ];
    rep.required_strata = specs.iter().map(|s| format!("{}:canonical", s.ty)).collect();
    rep.min_evals = 10000;
    finish(cfg, started, total, rep)
}

pub fn replay(_cfg: &Config, case: &Value) -> Local {
    let mut l = Local::default();
    let c: Case = serde_json::from_value(case.clone()).expect("C05 case");
    let specs = fieldfmt::specs();
    judge(&specs, &c, &mut l);
    l
}
