//! SplitMix64 keyed by (seed, stream, index): every random choice in the harness is a pure
//! function of VERIF_SEED, a stream label and a case index, so shards and reruns agree.

#[derive(Clone)]
pub struct Rng(u64);

fn mix(mut z: u64) -> u64 {
    z = (z ^ (z >> 30)).wrapping_mul(0xbf58476d1ce4e5b9);
    z = (z ^ (z >> 27)).wrapping_mul(0x94d049bb133111eb);
    z ^ (z >> 31)
}

pub fn hash_str(s: &str) -> u64 {
    // FNV-1a 64 then mixed
    let mut h: u64 = 0xcbf29ce484222325;
    for b in s.as_bytes() {
        h ^= *b as u64;
        h = h.wrapping_mul(0x100000001b3);
    }
    mix(h)
}

pub fn hash_bytes2(a: &str, b: &str) -> u64 {
    mix(hash_str(a) ^ hash_str(b).rotate_left(17) ^ 0x9e3779b97f4a7c15)
}

impl Rng {
    pub fn new(seed: u64, stream: &str, index: u64) -> Self {
        Rng(mix(seed ^ 0x9e3779b97f4a7c15)
            ^ hash_str(stream).rotate_left(21)
            ^ mix(index.wrapping_add(0x632be59bd9b4e019)))
    }
    pub fn next(&mut self) -> u64 {
        self.0 = self.0.wrapping_add(0x9e3779b97f4a7c15);
        mix(self.0)
    }
    pub fn below(&mut self, n: usize) -> usize {
        if n == 0 {
            0
        } else {
            (self.next() % n as u64) as usize
        }
    }
    pub fn range(&mut self, lo: usize, hi_incl: usize) -> usize {
        lo + self.below(hi_incl - lo + 1)
    }
    pub fn chance(&mut self, num: u64, den: u64) -> bool {
        self.next() % den < num
    }
    pub fn pick<'a, T>(&mut self, xs: &'a [T]) -> &'a T {
        &xs[self.below(xs.len())]
    }
    pub fn string(&mut self, alphabet: &[char], len: usize) -> String {
        (0..len).map(|_| *self.pick(alphabet)).collect()
    }
}
