#!/bin/bash
# tools/regress_seeded.sh [all] [id...] — re-run the owning check (or, with "all", every check) against
# every seeded change under /verif/seeded in isolation (tools/try_seed.sh) and print one line per change:
#   <id> owner=<Cxx> rc=<0|1|2> [other checks that fired]
# Scratch copies live under ${REGRESS_DIR:-/tmp/seeded-regress} and /tmp/mt and are removed afterwards
# (several lanes can run side by side with their own REGRESS_DIR and MT_TARGET).
MODE=owner; [ "$1" = all ] && { MODE=all; shift; }
IDS="$@"; [ -n "$IDS" ] || IDS=$(ls /verif/seeded)
REG=${REGRESS_DIR:-/tmp/seeded-regress}
mkdir -p $REG
for id in $IDS; do
  rm -rf $REG/$id; cp -r /verif/seeded/$id $REG/$id; rm -f $REG/$id/detect.txt
  owner=${id%%-*}
  if [ $MODE = all ]; then out=$(/verif/tools/try_seed.sh $REG/$id 2>&1); else out=$(/verif/tools/try_seed.sh $REG/$id $owner 2>&1); fi
  rc=$(echo "$out" | grep -E "^$owner rc=" | sed 's/.*rc=\([0-9]*\).*/\1/')
  others=$(echo "$out" | grep -E "^C[0-9]+ rc=1" | grep -v "^$owner " | cut -d' ' -f1 | tr '\n' ' ')
  echo "$id owner=$owner rc=${rc:-?} others=[$others]"
done
rm -rf $REG
