#!/bin/bash
# tools/regress_seeded.sh [all] [id...] — re-run the owning check (or, with "all", every check) against
# every seeded change under /verif/seeded in isolation (tools/try_seed.sh) and print one line per change:
#   <id> owner=<Cxx> rc=<0|1|2> [other checks that fired]
# Scratch copies live under /tmp/seeded-regress and /tmp/mt and are removed afterwards.
MODE=owner; [ "$1" = all ] && { MODE=all; shift; }
IDS="$@"; [ -n "$IDS" ] || IDS=$(ls /verif/seeded)
mkdir -p /tmp/seeded-regress
for id in $IDS; do
  rm -rf /tmp/seeded-regress/$id; cp -r /verif/seeded/$id /tmp/seeded-regress/$id; rm -f /tmp/seeded-regress/$id/detect.txt
  owner=${id%%-*}
  if [ $MODE = all ]; then out=$(/verif/tools/try_seed.sh /tmp/seeded-regress/$id 2>&1); else out=$(/verif/tools/try_seed.sh /tmp/seeded-regress/$id $owner 2>&1); fi
  rc=$(echo "$out" | grep -E "^$owner rc=" | sed 's/.*rc=\([0-9]*\).*/\1/')
  others=$(echo "$out" | grep -E "^C[0-9]+ rc=1" | grep -v "^$owner " | cut -d' ' -f1 | tr '\n' ' ')
  echo "$id owner=$owner rc=${rc:-?} others=[$others]"
done
rm -rf /tmp/seeded-regress
