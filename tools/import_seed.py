#!/usr/bin/env python3
"""tools/import_seed.py <seed-dir>... — copy a confirmed seeded change into /verif/seeded/<id>/.

Reads <seed-dir>/{patch.diff,demo.rs,meta.json,confirm.txt,detect.txt}; refuses a change whose
confirm.txt does not show: patch applies, demonstration fails with it, the three parts of the pinned
suite pass with it, revert complete, demonstration passes without it. detect.txt (appended by
tools/try_seed.sh, possibly several runs) is condensed into `detected_by` (checks that exited 1 in
their most recent isolated run) and `first_run_missed_by_owner` (the owning check did not fire the
first time it was tried, i.e. it had to be strengthened)."""
import json, os, re, shutil, sys

def confirm_ok(txt):
    sec = re.split(r"^--- ", txt, flags=re.M)
    if "apply: ok" not in sec[0]:
        return False, "patch did not apply"
    d = {s.split("\n", 1)[0]: s for s in sec[1:]}
    w = next((v for k, v in d.items() if k.startswith("demo WITH change")), "")
    s = next((v for k, v in d.items() if k.startswith("full suite WITH")), "")
    wo = next((v for k, v in d.items() if k.startswith("demo WITHOUT")), "")
    if "FAILED" not in w and "error" not in w:
        return False, "demonstration does not fail with the change"
    oks = re.findall(r"test result: ok\. (\d+) passed", s)
    if not ({"274", "13"} <= set(oks) and "1" in oks):
        return False, f"suite with change: {oks}"
    # the demonstration file sits in tests/ during the suite run, so exactly one FAILED line (its own) is expected
    if len(re.findall(r"test result: FAILED", s)) > 1:
        return False, "suite fails with the change"
    if "revert: ok" not in s and "revert: ok" not in txt:
        return False, "revert incomplete"
    if "test result: ok" not in wo or "FAILED" in wo:
        return False, "demonstration does not pass without the change"
    return True, "ok"

def detections(txt, owner):
    runs = re.split(r"^== ", txt, flags=re.M)[1:]
    latest, first_owner = {}, None
    log = []
    quick = {}
    for r in runs:
        head = r.split("\n", 1)[0]
        tier = "thorough" if "tier thorough" in head else "quick"
        for m in re.finditer(r"^(C\d\d) rc=(\d+)", r, flags=re.M):
            p, rc = m.group(1), int(m.group(2))
            latest[(p, tier)] = rc
            if tier == "quick":
                quick[p] = rc
            if p == owner and first_owner is None:
                first_owner = rc
        log.append(head.strip())
    det = sorted(p for p, rc in quick.items() if rc == 1)
    # a check that fires only in the thorough tier is listed with that qualifier
    for (p, tier), rc in sorted(latest.items()):
        if tier == "thorough" and rc == 1 and p not in det:
            det.append(f"{p}(thorough only)")
    return det, sorted(p for p, rc in quick.items() if rc not in (0, 1)), first_owner, log

def main():
    for d in sys.argv[1:]:
        d = d.rstrip("/")
        sid = os.path.basename(d)
        owner = sid.split("-")[0]
        try:
            meta = json.load(open(f"{d}/meta.json"))
            ok, why = confirm_ok(open(f"{d}/confirm.txt").read())
        except Exception as e:
            print(f"{sid}: SKIP ({e})"); continue
        if not ok:
            print(f"{sid}: NOT CONFIRMED ({why})"); continue
        det, errs, first_owner, log = detections(open(f"{d}/detect.txt").read() if os.path.exists(f"{d}/detect.txt") else "", owner)
        out = f"/verif/seeded/{sid}"
        os.makedirs(out, exist_ok=True)
        shutil.copy(f"{d}/patch.diff", out); shutil.copy(f"{d}/demo.rs", out)
        m = {
            "id": sid,
            "property": owner,
            "summary": meta.get("summary"),
            "needs": meta.get("needs"),
            "ran_by_author": meta.get("ran"),
            "confirmed": "tools/confirm_seed.sh in a scratch worktree: patch applies; cargo test --workspace --offline green with it (274 unit + 1 end2end + 13 doctests); demo.rs (as tests/seed_demo_*.rs) fails with it and passes without it",
            "evaluated": "tools/try_seed.sh (scratch worktree with the patch + scratch copy of /verif pointed at it, quick tier, seed 0): " + "; ".join(log),
            "detected_by": det,
            "owner_check_detects": any(d.startswith(owner) for d in det),
            "owner_check_missed_when_first_tried": (first_owner == 0) if first_owner is not None else None,
            "harness_errors": errs,
        }
        json.dump(m, open(f"{out}/meta.json", "w"), indent=1)
        print(f"{sid}: imported, detected_by={det}" + ("" if any(d.startswith(owner) for d in det) else "  <-- OWNER DOES NOT DETECT"))

main()
