#!/bin/bash
# tools/try_seed.sh <seed-dir> [Cxx ...] — run checks against a seeded change in ISOLATION:
# a scratch worktree of /repo with the patch applied next to a scratch copy of /verif (the copy's
# harness/Cargo.toml is pointed at the scratch worktree). Default: every claimed check, quick tier.
# TRY_BASE=<commit> evaluates against an older /repo commit (for a change whose target code was later rewritten).
# Prints, per check, exit code and the violation keys; appends to <seed-dir>/detect.txt.
D=$(readlink -f "$1"); shift
N=$(basename "$D")
ROOT=/tmp/mt/$N
rm -rf "$ROOT"; mkdir -p "$ROOT"
git -C /repo worktree add --detach "$ROOT/repo" ${TRY_BASE:-HEAD} -q || exit 2
( cd "$ROOT/repo" && git apply "$D/patch.diff" ) || { echo "patch does not apply"; git -C /repo worktree remove --force "$ROOT/repo"; exit 2; }
# committed state only (like `vp run`): work in progress in /verif must not leak into an evaluation
mkdir -p "$ROOT/verif" && git -C /verif archive HEAD | tar -x -C "$ROOT/verif" && rm -rf "$ROOT/verif/seeded"
mkdir -p "$ROOT/verif/evidence"
sed -i "s|path = \"/repo\"|path = \"$ROOT/repo\"|" "$ROOT/verif/harness/Cargo.toml"
PROPS="$@"; [ -n "$PROPS" ] || PROPS=$(python3 -c "import json;print(' '.join(c['property_id'] for c in json.load(open('/verif/MANIFEST.json'))['checks']))")
export CARGO_TARGET_DIR=${MT_TARGET:-/tmp/mt/target} SMT_REPO="$ROOT/repo"
{
echo "== $N at verif $(git -C /verif rev-parse --short HEAD), repo $(git -C /repo rev-parse --short ${TRY_BASE:-HEAD}), tier ${TIER:-quick}"
for P in $PROPS; do
  out=$(cd "$ROOT/verif" && BIN_OVERRIDE=1 ./check $P ${TIER:-quick} 2>&1); rc=$?
  echo "$P rc=$rc $(echo "$out" | grep -E '^\[C' | tail -1 | sed 's/evaluations.*new_violations/new_violations/')"
  echo "$out" | grep -E '^  key:' | head -8
done
} | tee -a "$D/detect.txt"
git -C /repo worktree remove --force "$ROOT/repo"; rm -rf "$ROOT"
