#!/bin/bash
# tools/runall.sh <quick|thorough> [seed]   — run every claimed check, print one line each
cd /verif
T=${1:-quick}; S=${2:-0}
for P in $(python3 -c "import json;print(' '.join(c['property_id'] for c in json.load(open('MANIFEST.json'))['checks']))"); do
  out=$(VERIF_SEED=$S ./check $P $T 2>&1); rc=$?
  echo "$P rc=$rc $(echo "$out" | grep -E '^\[C' | tail -1)"
  echo "$out" | grep -E '^  key:' | head -20
done
