#!/bin/bash
# tools/confirm_seed.sh <seed-dir> — independently confirm a seeded change in a scratch worktree:
#  (1) patch applies, builds, full suite passes with it; (2) demo fails with it; (3) demo passes without it.
# Writes <seed-dir>/confirm.txt. The scratch worktree (and its build output) is removed afterwards unless KEEP=1.
D=$(readlink -f "$1"); N=$(basename "$D" | tr 'A-Z-' 'a-z_')
WT=/tmp/wt-confirm-$N
export CARGO_NET_OFFLINE=true
git -C /repo worktree add --detach "$WT" HEAD -q || exit 2
cd "$WT"
{
echo "base commit: $(git rev-parse --short HEAD)"
git apply "$D/patch.diff" && echo "apply: ok" || { echo "apply: FAILED"; }
cp "$D/demo.rs" "tests/seed_demo_$N.rs"
echo "--- demo WITH change (expected: fails)"
cargo test --offline --test "seed_demo_$N" 2>&1 | grep -E '^test result|^error' | head -3
echo "--- full suite WITH change (expected: passes)"
cargo test --workspace --offline --no-fail-fast 2>&1 | grep -E '^test result' | head -4
git checkout -q -- . 2>/dev/null; git diff --quiet && echo "revert: ok" || echo "revert: incomplete"
echo "--- demo WITHOUT change (expected: passes)"
cargo test --offline --test "seed_demo_$N" 2>&1 | grep -E '^test result|^error' | head -3
} > "$D/confirm.txt" 2>&1
cd /; [ "${KEEP:-0}" = 1 ] || git -C /repo worktree remove --force "$WT"
cat "$D/confirm.txt"
