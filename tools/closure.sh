#!/bin/bash
# tools/closure.sh <Cxx> <quick|thorough> <first-seed> <last-seed>
# Runs the check at several seeds (binary must be built) and prints the union of violation keys that are
# not in KNOWN_FINDINGS.txt, with the number of seeds each appeared at. Triage aid only.
P=$1; T=$2; A=$3; B=$4
cd /verif
for s in $(seq $A $B); do
  ./harness/target/release/smtverif $P $T --seed $s 2>/dev/null | grep '^  key: ' | sed 's/^  key: //'
done | sort | uniq -c | sort -rn
