#!/usr/bin/env python3
"""tools/automut.py <n-mutants> [seed] [lanes] — automatic first-order mutants of the library, as a measuring
stick for the checks (development aid, not a registered check).

For each sampled site (a comparison / boolean operator, a small integer literal, is_some/is_none, a leading `!`)
in non-test library code one token is changed in a scratch worktree under /tmp/am/<lane>/repo. The pinned suite
is run first (a mutant it kills is of no interest); survivors are run against every quick check from a scratch
copy of the committed /verif pointed at the worktree. Results are appended to /tmp/am/results.jsonl:
  {"file","line","before","after","suite":"pass|fail|nocompile","fired":[checks],"errors":[checks with exit 2]}
Nothing is ever applied to /repo itself."""
import json, os, random, re, subprocess, sys, threading, queue, shutil

N = int(sys.argv[1]); SEED = int(sys.argv[2]) if len(sys.argv) > 2 else 1; LANES = int(sys.argv[3]) if len(sys.argv) > 3 else 4
ROOT = "/tmp/am"
DIRS = ["src/messages", "src/fields", "src/parser", "src/headers", "src/plugin"]
FILES = ["src/swift_message.rs", "src/errors.rs", "src/parsed_message.rs"]
OPS = [(r" >= ", " > "), (r" <= ", " < "), (r" > ", " >= "), (r" < ", " <= "), (r" == ", " != "), (r" != ", " == "), (r" && ", " || "), (r" \|\| ", " && "),
       (r"\.is_some\(\)", ".is_none()"), (r"\.is_none\(\)", ".is_some()"), (r"\.is_empty\(\)", ".len() == 1"), (r"\bany\(", "all("), (r"\ball\(", "any(")]

def sites():
    out = []
    files = list(FILES)
    for d in DIRS:
        for f in sorted(os.listdir(f"/repo/{d}")):
            if f.endswith(".rs"):
                files.append(f"{d}/{f}")
    for f in files:
        lines = open(f"/repo/{f}").read().split("\n")
        in_tests = False
        for i, l in enumerate(lines):
            if re.search(r"#\[cfg\(test\)\]", l):
                in_tests = True
            if in_tests:
                continue
            s = l.strip()
            if not s or s.startswith("//") or s.startswith("#[") or "error!" in s or "debug!" in s or "format!(" in s and "if " not in s:
                continue
            for pat, rep in OPS:
                for m in re.finditer(pat, l):
                    # skip generics / arrows / lifetimes
                    if pat in (r" > ", r" < ") and ("->" in l[max(0, m.start() - 2):m.end() + 1] or "fn " in l or "impl" in l or "<'" in l):
                        continue
                    out.append((f, i, m.start(), m.end(), rep))
            for m in re.finditer(r"(?<![\w.\"'])(\d{1,3})(?![\w.\"'])", l):
                v = int(m.group(1))
                if v <= 1 or '"' in l[:m.start()] and l[:m.start()].count('"') % 2 == 1:
                    continue
                out.append((f, i, m.start(), m.end(), str(v + 1)))
                out.append((f, i, m.start(), m.end(), str(v - 1)))
    return out

def run(cmd, cwd=None, env=None, timeout=1500):
    try:
        p = subprocess.run(cmd, shell=True, cwd=cwd, env=env, capture_output=True, text=True, timeout=timeout)
        return p.returncode, p.stdout + p.stderr
    except subprocess.TimeoutExpired:
        return 124, "timeout"

def lane(k, q, lock):
    base = f"{ROOT}/{k}"
    shutil.rmtree(base, ignore_errors=True); os.makedirs(base)
    run(f"git -C /repo worktree prune; git -C /repo worktree add --detach {base}/repo HEAD -q")
    os.makedirs(f"{base}/verif")
    run(f"git -C /verif archive HEAD | tar -x -C {base}/verif && rm -rf {base}/verif/seeded && mkdir -p {base}/verif/evidence")
    run(f"sed -i 's|path = \"/repo\"|path = \"{base}/repo\"|' {base}/verif/harness/Cargo.toml")
    env = dict(os.environ, CARGO_NET_OFFLINE="true", CARGO_TARGET_DIR=f"{base}/target-verif", SMT_REPO=f"{base}/repo")
    tenv = dict(os.environ, CARGO_NET_OFFLINE="true", CARGO_TARGET_DIR=f"{base}/target-repo")
    checks = [c["property_id"] for c in json.load(open("/verif/MANIFEST.json"))["checks"]]
    while True:
        try:
            f, i, a, b, rep = q.get_nowait()
        except queue.Empty:
            break
        run("git checkout -q -- .", cwd=f"{base}/repo")
        path = f"{base}/repo/{f}"
        lines = open(path).read().split("\n")
        before = lines[i]
        lines[i] = before[:a] + rep + before[b:]
        open(path, "w").write("\n".join(lines))
        rec = {"file": f, "line": i + 1, "before": before.strip(), "after": lines[i].strip()}
        rc, out = run("cargo test --workspace --offline --no-fail-fast 2>&1 | grep -E '^test result|^error' | head -8", cwd=f"{base}/repo", env=tenv)
        oks = re.findall(r"test result: ok\. (\d+) passed", out)
        if "error" in out and not oks:
            rec["suite"] = "nocompile"
        elif len(oks) >= 3 and "FAILED" not in out:
            rec["suite"] = "pass"
        else:
            rec["suite"] = "fail"
        if rec["suite"] == "pass":
            fired, errs = [], []
            for c in checks:
                rc, out = run(f"./check {c} quick", cwd=f"{base}/verif", env=env, timeout=900)
                if rc == 1:
                    fired.append(c)
                elif rc != 0:
                    errs.append(c)
            rec["fired"], rec["errors"] = fired, errs
        with lock:
            open(f"{ROOT}/results.jsonl", "a").write(json.dumps(rec) + "\n")
    run(f"git -C /repo worktree remove --force {base}/repo")
    shutil.rmtree(base, ignore_errors=True)

def main():
    os.makedirs(ROOT, exist_ok=True)
    s = sites()
    random.Random(SEED).shuffle(s)
    q = queue.Queue()
    for x in s[:N]:
        q.put(x)
    print(f"{len(s)} candidate sites, running {min(N, len(s))} on {LANES} lanes", flush=True)
    lock = threading.Lock()
    ts = [threading.Thread(target=lane, args=(k, q, lock)) for k in range(LANES)]
    [t.start() for t in ts]; [t.join() for t in ts]
    print("done")

main()
