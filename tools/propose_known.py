#!/usr/bin/env python3
"""Print candidate 'open:' lines for KNOWN_FINDINGS.txt from the replay files of the last run of a
property. For triage only: a line is added to the committed file by hand after the witness has been
replayed against the real code and judged a genuine defect that is not small and safe to repair."""
import json, sys, glob
prop = sys.argv[1]
for p in sorted(glob.glob(f"/verif/evidence/replays/{prop}-*.json")):
    d = json.load(open(p))
    what = d["what"].replace("\n", "\\n")
    print(f"open: property={prop} key={d['key']} :: {what}")
