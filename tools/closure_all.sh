#!/bin/bash
# tools/closure_all.sh <tier> <first-seed> <last-seed> [props...] — for use with `vp run`: builds the
# harness in the current (snapshot) directory and reports every violation key that is not a known
# finding, per property, over a range of seeds. Evidence is written inside the snapshot only.
T=$1; A=$2; B=$3; shift 3
export VERIF_DIR=$(pwd) CARGO_NET_OFFLINE=true
( cd harness && cargo build --release --offline 2>/dev/null ) || { echo build failed; exit 2; }
PROPS="$@"; [ -n "$PROPS" ] || PROPS=$(python3 -c "import json;print(' '.join(c['property_id'] for c in json.load(open('MANIFEST.json'))['checks']))")
for P in $PROPS; do
  for s in $(seq $A $B); do
    if [ "$P" = C15 ] && [ -f shim/entropy.so -o -f /verif/shim/entropy.so ]; then
      VERIF_ENTROPY_SEED=$s LD_PRELOAD=/verif/shim/entropy.so ./harness/target/release/smtverif $P $T --seed $s 2>/dev/null | grep '^  key: '
    else
      ./harness/target/release/smtverif $P $T --seed $s 2>/dev/null | grep '^  key: '; rc=${PIPESTATUS[0]}
      [ "$rc" -gt 1 ] && echo "  key: HARNESS-ERROR rc=$rc seed=$s"
    fi
  done | sort | uniq -c | sed "s/^/$P /"
  echo "$P done seeds $A..$B"
done
