#!/usr/bin/env python3
"""Regenerates /verif/MANIFEST.json from the table below (single source of truth for what is claimed)."""
import json, subprocess

BASELINE = "cd /repo && cargo test --workspace --no-fail-fast --offline"

# property id -> (technique, level text, level note, design ref)
CLAIMED = {
    "C01": (
        "runtime monitor: accepted-implies-lossless boundary oracle (reference tokeniser on input vs serialised output) + byte-conservation monitor over MessageParser hook events",
        "Exploration: every corpus message of all 30 types, and generated messages of every type (maximal, one per documented option, random shapes), under every single structural mutation (unknown / duplicated / deleted / swapped / moved / foreign fields, unknown option letter, appended content, extra lines, terminator and marker look-alikes inside and at the ends of values, certainly-invalid content, repetition counts around caps, LF/CRLF, bare and in an envelope; pairs of mutations in thorough). For each accepted text the reference-tokenised input must equal the tokenised output (tags in order, content up to number / line-end formatting) and the hook trace must account for every byte. The same accepted message is also taken through its own JSON (typed route) and, where the direct route reproduces the input, through the publish plugin: the published fields must be those of the direct serialisation.",
        "Trusted: the 30-line reference tokeniser and the number canonicalisation. Hooks only explain and double-check; the boundary comparison is primary.",
        "DESIGN.md section 3, C01",
    ),
    "C02": (
        "runtime monitor: metamorphic round-trip oracle (parse, serialise, re-parse, compare three views, fixed point) over corpus, mutated and re-spelled inputs",
        "Exploration: for every input the library accepts (corpus messages and generated messages of every type with all single structural mutations, per-field spelling variants, LF/CRLF, corpus / generated / sparse envelopes; every corpus field content and its variants through every field type of the same number, with and without option letter; every spec-derived boundary candidate of the 88 documented field formats) the monitor re-parses the library's own output and compares Debug, JSON and re-serialisation; held = no unlisted difference on the executions observed.",
        "Spec-free oracle: the library is compared with itself, so it cannot demand more than the statement. Covers only inputs the workload produces.",
        "DESIGN.md section 3, C02",
    ),
    "C08": (
        "runtime monitor: metamorphic JSON equalities (from_value.to_value = id, publish = to_mt_message, parse plugin = to_value.parse) + structural scan (input order, no empty placeholders, numeric leaves) on generated, corpus and field-level values",
        "Exploration: generated well-formed messages of all 30 types in generated and corpus envelopes, all corpus messages, every corpus field content with spelling variants through every field type and every spec-derived boundary candidate (lengths, dates around the century window, character classes): JSON round trip must not change the value, publishing the JSON must equal direct serialisation, the parse plugin must agree with the typed API, every written occurrence must sit at its input position in the JSON, no empty placeholder and no non-numeric amount / rate. The envelope part of the JSON is scanned for empty placeholders as well (every block-3 tag at its boundary lengths, every valued block-5 tag, present-but-empty blocks), publish differences are keyed by their cause, and every amount-bearing field is fed float spellings, overflowing exponents and over-long digit strings: an accepted one must give a finite JSON number.",
        "Equality judged on Debug rendering and serde_json values (null = absent, numbers by exact decimal).",
        "DESIGN.md section 3, C08",
    ),
    "C09": (
        "runtime monitor: deletion / corruption of every field occurrence of generated valid messages; mandatory-ness decided by an independent layout acceptor; culprit identification checked on structured and rendered errors",
        "Exploration: for valid generated messages of all 30 types every occurrence is deleted (judged when the independent layout acceptor rejects the remaining tag sequence) and every structured field is given three certainly-invalid contents; the library must reject and the error must identify tag and message type / tag and content. Long invalid contents (300 / 700 characters, every field) must come back whole in the error; the parse_mt and validate_mt plugins and the full-message route must keep what the parser's own error identifies and must reject what the text-block route rejects.",
        "Trusted base: spec/layout.rs acceptor; identification is judged leniently (payload or rendered text).",
        "DESIGN.md section 3, C09",
    ),
    "C10": (
        "runtime monitor: envelope generator + independent brace-structure reader; tag->value map comparison of input vs re-serialised output; near-miss malformed headers must be rejected",
        "Exploration (exhaustive over the 8192 block-3 and 256 block-5 tag subsets): envelopes built from documented components around real bodies of all 30 types (input headers 17/18/21, output headers 46/47, 8/11-character BICs, every block-3 tag at its minimum and maximum documented length, marker look-alikes inside values) must be accepted and reproduced (blocks 1, 2 byte-identical; blocks 3, 5 as tag->value maps), and headers of wrong length, direction or character class must be rejected. Block presence (present-but-empty blocks), every ordered pair of block-3 and block-5 tags, the JSON route, the direct header parsers and accessors and a second parse / serialise generation are judged too.",
        "Trusted: 40-line brace splitter; malformed classes limited to those the statement names.",
        "DESIGN.md section 3, C10",
    ),
    "C11": (
        "runtime monitor, exhaustive: all 10^6 six-digit strings x 15 date fields, all HHMM and signed offsets x 13C/13D; from-scratch calendar oracle, cross-field agreement, digit reproduction, JSON round trip",
        "Exhaustive exploration of the finite space the property quantifies over (1,000,000 dates x 15 field types, 10,000 times, 20,000 offsets, non-digit classes at every position), in MT and JSON, plus the date slot of every date-bearing field occurrence of generated messages of every type at message level: accepted iff calendar-valid, the same digits mean the same date in every field, digits are reproduced, from_value(to_value(v)) == v.",
        "Trusted: 20-line Gregorian calendar model. Offset hours 15..23 are not judged (undocumented).",
        "DESIGN.md section 3, C11",
    ),
    "C12": (
        "runtime monitor: metamorphic agreement of five entry points with the typed API; exhaustive 30x30 typed matrix and codes 000-999",
        "Exploration, exhaustive in the type dimensions: every (announced, requested) pair of the 30 types and every three-digit code is driven through parse_auto, typed parse and the parse / validate / publish plugin handlers on real messages; results are compared with the typed API and with the fixed T03 / unsupported expectations. Also: accessors and inherent parsers, parse_with_errors, the full-message route against the text-block route of the typed API on valid, rule-violating and hostile bodies, messages of up to 190 000 characters, and the wrapper's classification predicates against the body's own.",
        "Bodies are sampled from the committed scenario corpus; equality of results is judged on serde_json values.",
        "DESIGN.md section 3, C12",
    ),
    "C13": (
        "runtime monitor: metamorphic coherence oracle (prefix, emptiness, repeatability, immutability, four entry points) over valid and JSON-surgery rule-violating messages",
        "Exploration: every corpus message and thousands of JSON-surgery variants per type (messages violating zero, one or several rules) are validated twice through the body API, SwiftMessage::validate, the auto-detected wrapper and the validate plugin; the monitor checks prefix/emptiness of stop-on-first, agreement of all verdicts, repeatability (code and text) and that the message is unchanged.",
        "Spec-free: only compares the library with itself. Error identity = (code, Display text).",
        "DESIGN.md section 3, C13",
    ),
    "C14": (
        "runtime monitor: letter-vs-emitted-tag oracle over 25 families x 27 letters x valid and ambiguous contents; concrete per-option parsers as referees for the heuristic parse; every letter at every multi-option message position",
        "Exploration: every multi-option family with every letter A-Z (and none) on contents valid for some option of the field number, including deliberately ambiguous ones: an accepted value must serialise under the letter it was parsed with, undocumented letters must not be converted, the heuristic parse must return an option whose own parser accepts the content and that is stable under re-parsing; at message level every letter at every multi-option position of maximal generated messages must be preserved or rejected, and every documented option at its documented position must be accepted (differential against the other documented options and the message without the field) and preserved.",
        "Spec-free core (the letter itself); documented options per family restated from the enum documentation.",
        "DESIGN.md section 3, C14",
    ),
    "C15": (
        "runtime monitor: exact JSON comparison over the real generate/publish/validate/parse plugin pipeline on every shipped scenario x N seeded draws",
        "Exploration: every scenario file found at run time is drawn 1500 (quick) / 20000 (thorough) times through the real datafake generator and the real plugin handlers, plus 6000 / 120000 generator-only draws per scenario of which those with a record-length or blank-edged value go through the handlers (tail hunting); the parsed JSON must equal the generated JSON exactly (no rounding), validation must report no error.",
        "Draws are random (seeded through an LD_PRELOAD entropy shim when a C compiler is present); the generated JSON is the stored witness.",
        "DESIGN.md section 3, C15",
    ),
    "C16": (
        "runtime monitor: reference tokeniser vs field map; offline check of recorded tracker call/return histories against a sequential model; conservation check of sequence splitting",
        "Exploration: block-4 texts of all corpus messages and their structural mutants are tokenised by the library and by the reference tokeniser (occurrences, documented tag normalisation, content, strictly increasing stamps); thousands of short random histories of the consumption API (lookups by tag and option constraint, next-available, consumption in and out of input order) are recorded at the call boundary and checked (each occurrence at most once, input order, allowed variants only, drain returns the rest exactly once); every sequence configuration is checked for A+B+C = input. Numbered tags, empty and blank contents, texts of 1 000 to 70 000 fields (stamp packing), the documented placement rules of split_into_sequences (incl. a hand-built statement configuration) and parse_sequences with probe item types for each type name it dispatches on (grouping, consumption, statement-line rule) are covered as well.",
        "Trusted: reference tokeniser; the restated normalisation rule tolerates both spellings where the documentation is silent.",
        "DESIGN.md section 3, C16",
    ),
    "C03": (
        "runtime monitor over generated well-formed messages: independent layout table + documented-format exemplars; acceptance, byte-exact reproduction, JSON placement/coverage oracle",
        "Exploration: messages generated from an independent layout specification of the 30 types (minimal, maximal, each optional alone, every option letter at every position, seeded random shapes with repeated fields and 1-11 sequence occurrences, boundary-length contents) must be accepted, reproduced byte for byte, and every written occurrence must be found under its tag and sequence index in the model with exactly its components (coverage of JSON leaves against the written content).",
        "Trusted base: spec/layout.rs (SR2025 layouts restricted to options the crate's types document) and spec/exemplar.rs; disagreements were triaged in both directions (DESIGN.md section 8).",
        "DESIGN.md section 3, C03",
    ),
    "C17": (
        "runtime monitor, exhaustive product of code-word variants x places x types; documented-place oracle (three-valued), cross-type agreement, predicate-implies-method check through the real parse plugin",
        "Exhaustive exploration of the product the property quantifies over (20 field-72 variants x 6 {108:} variants x 5 {119:} variants) on real messages of MT103/202/205 and of each other type, plus MT202 with a cover sequence carrying none / one / both customer fields: classification iff code word at a documented place, return-only never reject, same words same classification across supporting types, plugin method = method implied by the predicates. Later additions: multi-line and mixed-case variants, block-3 tags in other orders, the JSON route with both spellings of the message type, cross-type agreement of the plugin's reject / return verdict between MT202 and MT205, and the MT199 predicates with a symmetry relation between the two code words.",
        "Documented places are restated in the harness (line start of field 72, whole {108:} value); other spellings are only used for agreement checks.",
        "DESIGN.md section 3, C17",
    ),
    "C04": (
        "runtime monitor: per-type reference rule predicates over an abstract message (presence flags, codes, currencies, sums, counts) vs validate_network_rules on messages rendered by JSON surgery; exhaustive product where small, pairwise sweeps + seeded random points otherwise",
        "Exploration: for 21 rule-bearing types the abstract rule-relevant space (presence/absence of every field a rule mentions per sequence, every code of the tables incl. all ordered pairs, equal/different currencies, matching/non-matching sums incl. one-cent differences, counts around each limit) is enumerated exhaustively where the product is small (all but MT103/104/107) and by all 1- and 2-dimensional sweeps plus seeded random points otherwise; the set of reported error codes must equal the set the reference predicates predict, code by code; the 9 types without rules must report nothing on corpus messages and JSON-surgery variants.",
        "Trusted base: props/c04.rs rule predicates restated from the rule texts; code sets are compared, not multiplicities; codes outside the model are not judged.",
        "DESIGN.md section 3, C04",
    ),
    "C05": (
        "runtime monitor: SWIFT-format-notation reference acceptor (three-valued) vs the 114 field parsers on class-labelled candidates derived from each documented format, plus field-level conservation",
        "Exploration: for each of the 88 concrete field types with a documented format and the 25 option families, every component at lengths 0, min-1, min, max, max+1, max+2 (min and max also with the optional rest absent), seventeen character classes (digit, zero, upper, lower, blank, signs, dot, comma, slash, non-SWIFT, control, non-ASCII) at first / middle / last position and on the 11-character BIC shape, dates around the century window, separators missing or doubled, embedded newlines, line counts 0, max+1, max+2 (also with optional lines absent), empty lines, trailing characters, case, plus seeded random edits and strings: accepted iff the reference acceptor says the content conforms (contents the documentation does not settle are not judged), and every accepted content must come back from serialisation.",
        "Trusted base: spec/fieldfmt.rs (documented formats restated as data + 300-line interpreter). Disagreements were triaged in both directions (DESIGN.md section 8).",
        "DESIGN.md section 3, C05",
    ),
    "C06": (
        "runtime monitor: exact-decimal reference model on the amount text + independent ISO-4217 minor-unit table; class-labelled candidates through all amount/rate fields; value preservation through MT, JSON and JSON->MT",
        "Exploration: 20 amount / rate field types x 47 currencies (0/2/3/4 decimals) x non-decimal spellings (NaN, inf, exponent, signs, blanks, hex, non-ASCII digits ...) x magnitudes of 1-17 integer digits x 0-5 decimals around every length limit: accepted iff a decimal within the field's limit and the currency's precision; every accepted decimal keeps its exact value when serialised, in the JSON number and from JSON back to MT. The serialised amount is re-parsed (the library must read what it writes, with the same value), an amount written with exactly the currency's decimals must come back character for character, and an amount leaf given as a JSON string in any float spelling must not be read.",
        "Trusted: the 30-line reference classifier and the ISO-4217 table. Integer without comma, '.' separator, zero and surplus trailing zeros are not judged.",
        "DESIGN.md section 3, C06",
    ),
    "C07": (
        "runtime monitor: catch_unwind + panic-hook over all public entry points on hostile/mutated inputs; CPU-time size ramps",
        "Exploration: every public parse / validate / serialise / JSON / error-rendering entry point is executed under a panic monitor on corpus-derived, systematically and randomly mutated inputs (non-ASCII, truncation, structure characters, size ramps) and on values only JSON can produce (the rule-violating states of the C04 enumeration, every array emptied); held = no panic/timeout outside the listed known findings on the executions observed.",
        "Trusted: Rust's catch_unwind and panic hook report every panic; worker death is reported by the check script. Not a proof over all inputs.",
        "DESIGN.md section 3, C07",
    ),
}

PENDING_REASON = "check not built yet in this round (see DESIGN.md Appendix B for the order of construction); nothing is claimed for it"

def main():
    props = [json.loads(l) for l in open("/verif/properties.jsonl")]
    head = subprocess.run(["git", "-C", "/repo", "log", "--format=%h %s"], capture_output=True, text=True).stdout.splitlines()
    hook_commits = [l.split()[0] for l in head if l.split(" ", 1)[1].startswith("verif:")]
    checks, na = [], []
    for p in props:
        pid = p["id"]
        if pid in CLAIMED:
            tech, text, note, ref = CLAIMED[pid]
            checks.append({
                "property_id": pid,
                "quick_cmd": f"./check {pid} quick",
                "thorough_cmd": f"./check {pid} thorough",
                "evidence_file": f"/verif/evidence/{pid}.json",
                "replay_cmd_template": f"./check {pid} --replay {{path}}",
                "engine": "smtverif",
                "level_claimed": {"category": "exploration", "text": text, "design_ref": ref},
                "level_note": note,
                "technique": tech,
            })
        else:
            na.append({"property_id": pid, "reason": PENDING_REASON})
    m = {
        "version": 1,
        "setup_cmd": "./check --setup",
        "hooks": {
            "guard": "cargo feature verif-hooks (off by default)",
            "enable": "harness/Cargo.toml depends on swift-mt-message at path /repo with features=[\"verif-hooks\"]; ./check rebuilds it from /repo's working tree on every run",
            "baseline_off_cmd": BASELINE,
            "source_commits": hook_commits,
            "add_only": True,
        },
        "engines": [{
            "name": "smtverif",
            "path": "/verif/harness",
            "serves_properties": sorted(CLAIMED),
            "kind_free_text": "Rust harness linking the real library: hostile workloads + runtime monitors (panic monitor, metamorphic and reference-model oracles, hook-event conservation), known-finding matcher, evidence writer",
        }],
        "checks": checks,
        "not_applicable": na,
        "notes": "Known findings: /verif/KNOWN_FINDINGS.txt (never written at run time). Exit codes: 0 held, 1 VIOLATION, 2 harness error (no verdict).",
    }
    json.dump(m, open("/verif/MANIFEST.json", "w"), indent=1)
    print("claimed:", sorted(CLAIMED), "not_applicable:", len(na))

main()
