#!/usr/bin/env python3
"""Prints the markdown table of /verif/seeded for DESIGN.md section 9.5."""
import json, os
rows = []
for d in sorted(os.listdir('/verif/seeded')):
    try:
        m = json.load(open(f'/verif/seeded/{d}/meta.json'))
    except Exception:
        continue
    s = (m.get('summary') or '').replace('|', '/').replace('\n', ' ')
    if len(s) > 230:
        s = s[:227] + '...'
    det = ', '.join(m.get('detected_by') or []) or '—'
    if m.get('obsolete'):
        det += ' (no longer applies to the current tree, see its meta.json)'
    missed = 'yes' if m.get('owner_check_missed_when_first_tried') else ''
    rows.append(f"| {d} | {s} | {det} | {missed} |")
print("| id | change | checks that fire (quick, seed 0) | owner missed it at first |")
print("|---|---|---|---|")
print('\n'.join(rows))

import sys
if len(sys.argv) > 1 and sys.argv[1] == "--write":
    import io, contextlib
    p = '/verif/DESIGN.md'
    s = open(p).read()
    a = s.index("<!-- seeded-table-begin -->") + len("<!-- seeded-table-begin -->")
    b = s.index("<!-- seeded-table-end -->")
    tbl = "| id | change | checks that fire (quick, seed 0) | owner missed it at first |\n|---|---|---|---|\n" + "\n".join(rows)
    open(p, 'w').write(s[:a] + "\n" + tbl + "\n" + s[b:])
