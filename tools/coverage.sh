#!/bin/bash
# tools/coverage.sh [quick|thorough] — which library code do the checks' workloads never execute?
# Builds the harness with -Cinstrument-coverage (nightly, offline) in a scratch target directory, runs every
# check once (evidence goes to a scratch VERIF_DIR copy), merges the profiles and prints, per library source
# file, the functions that contain lines never executed (with the number of such lines). A development aid for
# finding blind spots of the workloads; not a registered check and no verdict.
T=${1:-quick}
BIN=$(rustc +nightly --print sysroot)/lib/rustlib/x86_64-unknown-linux-gnu/bin
S=/tmp/verif-cov; rm -rf $S; mkdir -p $S/prof $S/verif
git -C /verif archive HEAD | tar -x -C $S/verif
( cd $S/verif/harness && RUSTFLAGS="-Cinstrument-coverage" CARGO_TARGET_DIR=$S/target cargo +nightly build --release --offline 2>/dev/null ) || { echo build failed; exit 2; }
for P in $(python3 -c "import json;print(' '.join(c['property_id'] for c in json.load(open('/verif/MANIFEST.json'))['checks']))"); do
  [ $P = C15 ] && continue
  LLVM_PROFILE_FILE=$S/prof/$P-%p.profraw VERIF_DIR=$S/verif SMT_REPO=/repo $S/target/release/smtverif $P $T >/dev/null 2>&1
done
$BIN/llvm-profdata merge -sparse $S/prof/*.profraw -o $S/all.profdata
$BIN/llvm-cov show $S/target/release/smtverif -instr-profile=$S/all.profdata --ignore-filename-regex='(registry|rustc|harness|\.cargo)' 2>/dev/null > $S/show.txt
python3 - "$S/show.txt" <<'PY'
import re,sys,collections
cur=None; fn='?'; out=collections.OrderedDict()
for line in open(sys.argv[1], errors='replace'):
    if line.startswith('/repo/src/') and line.rstrip().endswith(':'):
        cur=line.strip()[:-1]; fn='?'; continue
    m=re.match(r'\s*(\d+)\|\s*([0-9.kME]*)\|(.*)', line)
    if not m or cur is None: continue
    n,cnt,src=m.groups()
    f=re.search(r'\bfn\s+([A-Za-z0-9_]+)', src)
    if f: fn=f.group(1)
    if cnt=='0' and not re.search(r'error!|warn!|debug!|^\s*\}|^\s*\)|^\s*$', src):
        out.setdefault(cur,collections.Counter())[fn]+=1
for f,c in out.items():
    print(f.replace('/repo/src/',''), ' '.join(f"{k}:{v}" for k,v in c.most_common()))
PY
rm -rf $S
