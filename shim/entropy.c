/* LD_PRELOAD shim: getrandom()/getentropy() served from a SplitMix64 stream seeded by
 * VERIF_ENTROPY_SEED, so that datafake draws (rand's thread rng seeds from getrandom) and HashMap
 * iteration order become a function of VERIF_SEED. Used by the C15 check only. */
#define _GNU_SOURCE
#include <stdint.h>
#include <stdlib.h>
#include <string.h>
#include <sys/types.h>

static uint64_t counter;
static uint64_t seed;
static int inited;

static uint64_t mix(uint64_t z) {
  z = (z ^ (z >> 30)) * 0xbf58476d1ce4e5b9ULL;
  z = (z ^ (z >> 27)) * 0x94d049bb133111ebULL;
  return z ^ (z >> 31);
}

static void fill(void *buf, size_t len) {
  if (!inited) {
    const char *s = getenv("VERIF_ENTROPY_SEED");
    seed = s ? strtoull(s, 0, 10) : 0;
    inited = 1;
  }
  unsigned char *p = buf;
  while (len > 0) {
    uint64_t c = __atomic_fetch_add(&counter, 1, __ATOMIC_RELAXED);
    uint64_t x = mix(seed * 0x9e3779b97f4a7c15ULL + c + 1);
    size_t n = len < 8 ? len : 8;
    memcpy(p, &x, n);
    p += n;
    len -= n;
  }
}

ssize_t getrandom(void *buf, size_t len, unsigned int flags) {
  (void)flags;
  fill(buf, len);
  return (ssize_t)len;
}

int getentropy(void *buf, size_t len) {
  fill(buf, len);
  return 0;
}
